//! C15 correspondence harness: drives the real `neumann_parser`.
//! Case kinds written as Gallina terms for NV.C15.Run:
//!   tree   : (which, tree, printed tokens, implementation result) -> check_tree
//!            (oracle: parsing the minimally parenthesised print of a tree gives the tree back)
//!   stream : (which, tokens, implementation result)               -> check_stream
//!            (model = implementation on mutated token strings, incl. error kind and position)
//! which = 0: expr.rs `ExprParser`; which = 1: parser.rs `Parser` (through `SELECT .. WHERE <e>`).
//! Implementation-only stream `fuzz` (no model): totality / determinism / error span inside the
//! input / no stack exhaustion of `parse`, `parse_all`, `parse_expr`, `tokenize` on structured,
//! byte-level and deeply nested inputs, run in a CHILD PROCESS (a stack overflow aborts it).
use neumann_parser::{
    BinaryOp, Expr, ExprKind, ExprParser, InList, Literal, ParseErrorKind, Parser, StatementKind, UnaryOp,
};
use nvh_common::*;
use std::io::{BufRead, BufReader, Write};
use std::panic::AssertUnwindSafe;
use std::process::{Command, Stdio};
use std::sync::mpsc;
use std::time::Duration;

// ------------------------------------------------------------------------------------ model-side types
#[derive(Clone, Debug, PartialEq)]
enum M {
    Atom(u64),
    Bin(u64, Box<M>, Box<M>),
    Un(u64, Box<M>),
    IsNull(Box<M>, bool),
    Like(Box<M>, Box<M>, bool),
    Between(Box<M>, Box<M>, Box<M>, bool),
    In(Box<M>, Vec<M>, bool),
    Tuple(Vec<M>),
}
#[derive(Clone, Copy, Debug, PartialEq)]
enum T {
    Atom(u64),
    Op(u64),
    Not,
    Tilde,
    LP,
    RP,
    Comma,
    Is,
    Null,
    In,
    Like,
    Between,
}
use BinaryOp::*;
const OPS: [BinaryOp; 19] =
    [Or, And, Eq, Ne, Lt, Le, Gt, Ge, BitOr, BitXor, BitAnd, Shl, Shr, Add, Sub, Concat, Mul, Div, Mod];
const OP_AND: u64 = 1;
const OP_SUB: u64 = 14;
fn op_code(op: BinaryOp) -> u64 {
    OPS.iter().position(|o| *o == op).unwrap() as u64
}
/// atom code -> source text (code 0 = NULL; codes >= 100 are identifiers)
const ATOMS: [(u64, &str); 15] = [
    (1, "1"),
    (2, "2"),
    (3, "42"),
    (4, "'s'"),
    (5, "''"),
    (6, "1.5"),
    (7, "TRUE"),
    (8, "FALSE"),
    (9, "'n\u{e9}\u{4e16}'"),
    (10, "9223372036854775807"),
    (100, "a"),
    (101, "b"),
    (102, "col_1"),
    (103, "x"),
    (104, "status"),
];
const LIT_ATOMS: [u64; 10] = [1, 2, 3, 4, 5, 6, 7, 8, 9, 10];
fn atom_text(c: u64) -> &'static str {
    ATOMS.iter().find(|(k, _)| *k == c).map(|(_, s)| *s).unwrap_or("1")
}
fn atom_of_ast(k: &ExprKind) -> u64 {
    match k {
        ExprKind::Literal(Literal::Null) => 0,
        ExprKind::Literal(Literal::Integer(1)) => 1,
        ExprKind::Literal(Literal::Integer(2)) => 2,
        ExprKind::Literal(Literal::Integer(42)) => 3,
        ExprKind::Literal(Literal::String(s)) if s == "s" => 4,
        ExprKind::Literal(Literal::String(s)) if s.is_empty() => 5,
        ExprKind::Literal(Literal::Float(f)) if *f == 1.5 => 6,
        ExprKind::Literal(Literal::Boolean(true)) => 7,
        ExprKind::Literal(Literal::Boolean(false)) => 8,
        ExprKind::Literal(Literal::String(s)) if s == "n\u{e9}\u{4e16}" => 9,
        ExprKind::Literal(Literal::Integer(i64::MAX)) => 10,
        ExprKind::Ident(i) => match i.name.as_str() {
            "a" => 100,
            "b" => 101,
            "col_1" => 102,
            "x" => 103,
            "status" => 104,
            _ => 99998,
        },
        _ => 99999,
    }
}
fn conv(e: &Expr) -> M {
    match &e.kind {
        ExprKind::Binary(l, op, r) => M::Bin(op_code(*op), Box::new(conv(l)), Box::new(conv(r))),
        ExprKind::Unary(u, x) => M::Un(
            match u {
                UnaryOp::Not => 0,
                UnaryOp::Neg => 1,
                UnaryOp::BitNot => 2,
            },
            Box::new(conv(x)),
        ),
        ExprKind::IsNull { expr, negated } => M::IsNull(Box::new(conv(expr)), *negated),
        ExprKind::Like { expr, pattern, negated } => M::Like(Box::new(conv(expr)), Box::new(conv(pattern)), *negated),
        ExprKind::Between { expr, low, high, negated } => {
            M::Between(Box::new(conv(expr)), Box::new(conv(low)), Box::new(conv(high)), *negated)
        }
        ExprKind::In { expr, list: InList::Values(vs), negated } => {
            M::In(Box::new(conv(expr)), vs.iter().map(conv).collect(), *negated)
        }
        ExprKind::Tuple(es) => M::Tuple(es.iter().map(conv).collect()),
        k => M::Atom(atom_of_ast(k)),
    }
}
impl M {
    fn coq(&self) -> String {
        match self {
            M::Atom(n) => format!("(Atom {n})"),
            M::Bin(o, l, r) => format!("(Bin {o} {} {})", l.coq(), r.coq()),
            M::Un(u, x) => format!("(Un {u} {})", x.coq()),
            M::IsNull(x, n) => format!("(IsNull {} {})", x.coq(), b(*n)),
            M::Like(x, p, n) => format!("(Like {} {} {})", x.coq(), p.coq(), b(*n)),
            M::Between(x, l, h, n) => format!("(Between {} {} {} {})", x.coq(), l.coq(), h.coq(), b(*n)),
            M::In(x, vs, n) => format!("(InL {} {} {})", x.coq(), list(vs.iter().map(|v| v.coq())), b(*n)),
            M::Tuple(es) => format!("(Tuple {})", list(es.iter().map(|v| v.coq()))),
        }
    }
    fn depth(&self) -> usize {
        match self {
            M::Atom(_) => 1,
            M::Bin(_, l, r) => 1 + l.depth().max(r.depth()),
            M::Un(_, x) | M::IsNull(x, _) => 1 + x.depth(),
            M::Like(x, p, _) => 1 + x.depth().max(p.depth()),
            M::Between(x, l, h, _) => 1 + x.depth().max(l.depth()).max(h.depth()),
            M::In(x, vs, _) => 1 + vs.iter().map(|v| v.depth()).max().unwrap_or(0).max(x.depth()),
            M::Tuple(es) => 1 + es.iter().map(|v| v.depth()).max().unwrap_or(0),
        }
    }
}
impl T {
    fn coq(&self) -> String {
        match self {
            T::Atom(n) => format!("TAtom {n}"),
            T::Op(o) => format!("TOp {o}"),
            T::Not => "TNot".into(),
            T::Tilde => "TTilde".into(),
            T::LP => "TLP".into(),
            T::RP => "TRP".into(),
            T::Comma => "TComma".into(),
            T::Is => "TIs".into(),
            T::Null => "TNull".into(),
            T::In => "TIn".into(),
            T::Like => "TLike".into(),
            T::Between => "TBetween".into(),
        }
    }
    fn text(&self) -> String {
        match self {
            T::Atom(n) => atom_text(*n).to_string(),
            T::Op(o) => format!("{}", OPS[*o as usize % 19]),
            T::Not => "NOT".into(),
            T::Tilde => "~".into(),
            T::LP => "(".into(),
            T::RP => ")".into(),
            T::Comma => ",".into(),
            T::Is => "IS".into(),
            T::Null => "NULL".into(),
            T::In => "IN".into(),
            T::Like => "LIKE".into(),
            T::Between => "BETWEEN".into(),
        }
    }
}

// ------------------------------------------------------------------------------------ printer (documented rules)
// Minimal parentheses according to the DOCUMENTED precedence/associativity, taken from the
// crate's public API (BinaryOp::precedence / is_left_assoc), not from the binding-power tables.
#[derive(Clone, Copy)]
enum Pos {
    Top,
    L(u64),
    R(u64),
    Pre,
    Subj,
}
fn prec(o: u64) -> u8 {
    OPS[o as usize].precedence()
}
fn wraps(q: Pos, c: &M) -> bool {
    match c {
        M::Bin(o2, _, _) => match q {
            Pos::Top => false,
            Pos::L(o) => prec(*o2) < prec(o),
            Pos::R(o) => {
                if OPS[o as usize].is_left_assoc() {
                    prec(*o2) <= prec(o)
                } else {
                    prec(*o2) < prec(o)
                }
            }
            Pos::Pre | Pos::Subj => true,
        },
        M::Un(..) | M::Like(..) | M::Between(..) => matches!(q, Pos::Subj),
        _ => false,
    }
}
fn pr(q: Pos, e: &M, out: &mut Vec<T>) {
    if wraps(q, e) {
        out.push(T::LP);
        body(e, out);
        out.push(T::RP);
    } else {
        body(e, out);
    }
}
fn nots(neg: bool, out: &mut Vec<T>) {
    if neg {
        out.push(T::Not);
    }
}
fn commas(es: &[M], out: &mut Vec<T>) {
    for (i, e) in es.iter().enumerate() {
        if i > 0 {
            out.push(T::Comma);
        }
        body(e, out);
    }
}
fn body(e: &M, out: &mut Vec<T>) {
    match e {
        M::Atom(0) => out.push(T::Null),
        M::Atom(n) => out.push(T::Atom(*n)),
        M::Bin(o, l, r) => {
            pr(Pos::L(*o), l, out);
            out.push(T::Op(*o));
            pr(Pos::R(*o), r, out);
        }
        M::Un(u, x) => {
            out.push(match u {
                0 => T::Not,
                1 => T::Op(OP_SUB),
                _ => T::Tilde,
            });
            pr(Pos::Pre, x, out);
        }
        M::IsNull(x, n) => {
            pr(Pos::Subj, x, out);
            out.push(T::Is);
            nots(*n, out);
            out.push(T::Null);
        }
        M::Like(x, p, n) => {
            pr(Pos::Subj, x, out);
            nots(*n, out);
            out.push(T::Like);
            pr(Pos::Pre, p, out);
        }
        M::Between(x, l, h, n) => {
            pr(Pos::Subj, x, out);
            nots(*n, out);
            out.push(T::Between);
            pr(Pos::Pre, l, out);
            out.push(T::Op(OP_AND));
            pr(Pos::Pre, h, out);
        }
        M::In(x, vs, n) => {
            pr(Pos::Subj, x, out);
            nots(*n, out);
            out.push(T::In);
            out.push(T::LP);
            commas(vs, out);
            out.push(T::RP);
        }
        M::Tuple(es) => {
            out.push(T::LP);
            commas(es, out);
            out.push(T::RP);
        }
    }
}

/// tokens -> text with the byte offset of every token
fn render(ts: &[T], r: &mut Rng, plain: bool) -> (String, Vec<usize>) {
    let mut s = String::new();
    let mut offs = Vec::with_capacity(ts.len());
    for (i, t) in ts.iter().enumerate() {
        if i > 0 {
            let tight_ok = matches!(ts[i - 1], T::LP) || matches!(t, T::RP | T::Comma);
            if plain {
                s.push(' ');
            } else {
                match r.below(10) {
                    0 if tight_ok => {}
                    1 => s.push_str("  "),
                    2 => s.push('\n'),
                    3 => s.push('\t'),
                    4 => s.push_str(" /* c */ "),
                    _ => s.push(' '),
                }
            }
        }
        offs.push(s.len());
        s.push_str(&t.text());
    }
    (s, offs)
}

// ------------------------------------------------------------------------------------ running the real parsers
#[derive(Clone, Debug, PartialEq)]
enum R {
    Ok(M, usize),
    Err(u64, usize),
    Panic(String),
    Odd(String),
}
fn kind_code(k: &ParseErrorKind) -> u64 {
    match k {
        ParseErrorKind::TooDeep => 0,
        ParseErrorKind::UnexpectedToken { .. } => 1,
        ParseErrorKind::UnexpectedEof { .. } => 2,
        ParseErrorKind::InvalidSyntax(_) => 3,
        _ => 4,
    }
}
fn idx_of(pos: usize, offs: &[usize], len: usize) -> Option<usize> {
    if let Some(i) = offs.iter().position(|o| *o == pos) {
        return Some(i);
    }
    if pos >= len {
        return Some(offs.len());
    }
    None
}
const PFX: &str = "SELECT x FROM t WHERE ";
fn run_impl(which: u64, text: &str, offs: &[usize]) -> R {
    let res = guarded(AssertUnwindSafe(|| {
        if which == 0 {
            let mut p = ExprParser::new(text);
            match p.parse_expr() {
                Ok(e) => (Ok(conv(&e)), p.current().span.start.0 as usize, 0usize),
                Err(er) => (Err(kind_code(&er.kind)), er.span.start.0 as usize, er.span.end.0 as usize),
            }
        } else {
            let full = format!("{PFX}{text}");
            let mut p = Parser::new(&full);
            match p.parse_statement() {
                Ok(st) => match st.kind {
                    StatementKind::Select(s) => match s.where_clause {
                        Some(w) => (Ok(conv(&w)), (p.current().span.start.0 as usize).saturating_sub(PFX.len()), 0),
                        None => (Err(97), 0, 0),
                    },
                    _ => (Err(96), 0, 0),
                },
                Err(er) => (
                    Err(kind_code(&er.kind)),
                    (er.span.start.0 as usize).saturating_sub(PFX.len()),
                    (er.span.end.0 as usize).saturating_sub(PFX.len()),
                ),
            }
        }
    }));
    match res {
        Err(msg) => R::Panic(msg),
        Ok((Ok(m), pos, _)) => match idx_of(pos, offs, text.len()) {
            Some(i) => R::Ok(m, i),
            None => R::Odd(format!("rest position {pos} is not a token boundary")),
        },
        Ok((Err(k), pos, end)) => {
            if pos > text.len() || end > text.len().max(pos) + 0 && end > text.len() {
                return R::Odd(format!("error span {pos}..{end} outside the input of length {}", text.len()));
            }
            match idx_of(pos, offs, text.len()) {
                Some(i) => R::Err(k, i),
                None => R::Odd(format!("error position {pos} is not a token boundary")),
            }
        }
    }
}
fn res_coq(r: &R, ts: &[T]) -> String {
    let rest = |i: usize| list(ts[i.min(ts.len())..].iter().map(|t| t.coq()));
    match r {
        R::Ok(m, i) => format!("(Ok {} {})", m.coq(), rest(*i)),
        R::Err(k, i) => format!("(Err {k} {})", rest(*i)),
        R::Panic(_) => "(Err 98 [])".into(),
        R::Odd(_) => "(Err 99 [])".into(),
    }
}

// ------------------------------------------------------------------------------------ generators
fn gen_atom(r: &mut Rng, lit_only: bool) -> M {
    if lit_only {
        if r.chance(1, 8) {
            return M::Atom(0);
        }
        return M::Atom(*r.pick(&LIT_ATOMS));
    }
    if r.chance(1, 12) {
        return M::Atom(0);
    }
    M::Atom(r.pick(&ATOMS).0)
}
fn gen_tree(r: &mut Rng, depth: usize, lit_only: bool, dist: &mut Dist) -> M {
    if depth <= 1 || r.chance(1, 6) {
        return gen_atom(r, lit_only);
    }
    let k = r.below(100);
    let sub = |r: &mut Rng, dist: &mut Dist| Box::new(gen_tree(r, depth - 1, lit_only, dist));
    if k < 50 {
        dist.hit("node.binary");
        M::Bin(r.below(19), sub(r, dist), sub(r, dist))
    } else if k < 65 {
        dist.hit("node.unary");
        M::Un(r.below(3), sub(r, dist))
    } else if k < 73 {
        dist.hit("node.is_null");
        M::IsNull(sub(r, dist), r.chance(1, 2))
    } else if k < 81 {
        dist.hit("node.like");
        M::Like(sub(r, dist), sub(r, dist), r.chance(1, 2))
    } else if k < 89 {
        dist.hit("node.between");
        M::Between(sub(r, dist), sub(r, dist), sub(r, dist), r.chance(1, 2))
    } else if k < 97 {
        dist.hit("node.in");
        let n = r.below(4) as usize;
        M::In(sub(r, dist), (0..n).map(|_| gen_tree(r, depth - 1, lit_only, dist)).collect(), r.chance(1, 2))
    } else {
        dist.hit("node.tuple");
        let n = if r.chance(1, 4) { 0 } else { r.range(2, 3) as usize };
        M::Tuple((0..n).map(|_| gen_tree(r, depth - 1, lit_only, dist)).collect())
    }
}
fn a(n: u64) -> Box<M> {
    Box::new(M::Atom(n))
}
/// representative children of every node kind (used under every parent position)
fn child_kinds() -> Vec<M> {
    let mut v = vec![
        M::Atom(1),
        M::Atom(0),
        M::Atom(100),
        M::Un(0, a(100)),
        M::Un(1, a(1)),
        M::Un(2, a(2)),
        M::IsNull(a(100), false),
        M::IsNull(a(100), true),
        M::Like(a(100), a(4), false),
        M::Like(a(100), a(4), true),
        M::Between(a(100), a(1), a(2), false),
        M::Between(a(100), a(1), a(2), true),
        M::In(a(100), vec![M::Atom(1), M::Atom(2)], false),
        M::In(a(100), vec![], true),
        M::Tuple(vec![]),
        M::Tuple(vec![M::Atom(1), M::Atom(2)]),
    ];
    for o in [0u64, 1, 2, 8, 13, 14, 16] {
        v.push(M::Bin(o, a(101), a(2)));
    }
    v
}
fn systematic_trees(thorough: bool) -> Vec<(M, &'static str)> {
    let mut v = vec![];
    // every ordered pair of binary operators, child on the left and on the right
    for o in 0..19u64 {
        for o2 in 0..19u64 {
            v.push((M::Bin(o, Box::new(M::Bin(o2, a(100), a(1))), a(2)), "sys.pair_left"));
            v.push((M::Bin(o, a(100), Box::new(M::Bin(o2, a(1), a(2)))), "sys.pair_right"));
        }
    }
    // every parent position x every child kind
    for c in child_kinds() {
        let cb = || Box::new(c.clone());
        for u in 0..3u64 {
            v.push((M::Un(u, cb()), "sys.unary_child"));
        }
        for o in [0u64, 1, 5, 13, 14, 16, 18] {
            v.push((M::Bin(o, cb(), a(1)), "sys.bin_left_child"));
            v.push((M::Bin(o, a(1), cb()), "sys.bin_right_child"));
        }
        for n in [false, true] {
            v.push((M::IsNull(cb(), n), "sys.subject_child"));
            v.push((M::Like(cb(), a(4), n), "sys.subject_child"));
            v.push((M::Like(a(100), cb(), n), "sys.pattern_child"));
            v.push((M::Between(cb(), a(1), a(2), n), "sys.subject_child"));
            v.push((M::Between(a(100), cb(), a(2), n), "sys.bound_child"));
            v.push((M::Between(a(100), a(1), cb(), n), "sys.bound_child"));
            v.push((M::In(cb(), vec![M::Atom(1)], n), "sys.subject_child"));
            v.push((M::In(a(100), vec![c.clone(), M::Atom(1)], n), "sys.list_child"));
        }
        v.push((M::Tuple(vec![c.clone(), c.clone()]), "sys.list_child"));
    }
    if thorough {
        // every triple of binary operators in the five shapes of three internal nodes
        for o1 in 0..19u64 {
            for o2 in 0..19u64 {
                for o3 in 0..19u64 {
                    let l = |o, x: Box<M>, y: Box<M>| Box::new(M::Bin(o, x, y));
                    v.push((M::Bin(o1, l(o2, l(o3, a(1), a(2)), a(3)), a(100)), "sys.triple"));
                    v.push((M::Bin(o1, l(o2, a(1), l(o3, a(2), a(3))), a(100)), "sys.triple"));
                    v.push((M::Bin(o1, l(o2, a(1), a(2)), l(o3, a(3), a(100))), "sys.triple"));
                    v.push((M::Bin(o1, a(1), l(o2, l(o3, a(2), a(3)), a(100))), "sys.triple"));
                    v.push((M::Bin(o1, a(1), l(o2, a(2), l(o3, a(3), a(100)))), "sys.triple"));
                }
            }
        }
    }
    v
}
/// trees whose nesting sits around the documented limit (64 activations)
fn boundary_trees() -> Vec<(M, &'static str)> {
    let mut v = vec![];
    for n in [10usize, 61, 62, 63, 64, 65, 70] {
        // unary chain: - ~ NOT ... a
        let mut e = M::Atom(100);
        for i in 0..n {
            e = M::Un((i % 3) as u64, Box::new(e));
        }
        v.push((e, "deep.unary_chain"));
        // LIKE chain in pattern position: a LIKE b LIKE c ...
        let mut e = M::Atom(4);
        for _ in 0..n {
            e = M::Like(a(100), Box::new(e), false);
        }
        v.push((e, "deep.like_chain"));
        // IN nesting
        let mut e = M::Atom(1);
        for _ in 0..n {
            e = M::In(a(100), vec![e], false);
        }
        v.push((e, "deep.in_nesting"));
        // tuple nesting
        let mut e = M::Atom(1);
        for _ in 0..n {
            e = M::Tuple(vec![e, M::Atom(2)]);
        }
        v.push((e, "deep.tuple_nesting"));
    }
    for n in [5usize, 30, 31, 32, 33, 40] {
        // right-nested subtraction: a - (b - (c - ...)) : two activations per level
        let mut e = M::Atom(1);
        for _ in 0..n {
            e = M::Bin(OP_SUB, a(100), Box::new(e));
        }
        v.push((e, "deep.right_nested"));
    }
    for n in [100usize, 400] {
        // left-nested: a - b - c ... : no nesting at all
        let mut e = M::Atom(1);
        for _ in 0..n {
            e = M::Bin(OP_SUB, Box::new(e), a(100));
        }
        v.push((e, "deep.left_chain"));
    }
    v
}

const ALPHABET: [T; 16] = [
    T::Atom(1),
    T::Atom(4),
    T::Null,
    T::Op(0),
    T::Op(1),
    T::Op(2),
    T::Op(13),
    T::Op(14),
    T::Op(16),
    T::Not,
    T::Tilde,
    T::LP,
    T::RP,
    T::Comma,
    T::Is,
    T::In,
];
fn rand_tok(r: &mut Rng) -> T {
    match r.below(10) {
        0 => T::Like,
        1 => T::Between,
        2 => T::Op(r.below(19)),
        3 => T::Atom(*r.pick(&LIT_ATOMS)),
        _ => *r.pick(&ALPHABET),
    }
}
fn mutate(ts: &mut Vec<T>, r: &mut Rng, dist: &mut Dist) {
    let n = r.range(1, 3);
    for _ in 0..n {
        let len = ts.len();
        match r.below(6) {
            0 if len > 0 => {
                ts.remove(r.below(len as u64) as usize);
                dist.hit("mut.delete");
            }
            1 => {
                ts.insert(r.below(len as u64 + 1) as usize, rand_tok(r));
                dist.hit("mut.insert");
            }
            2 if len > 0 => {
                let i = r.below(len as u64) as usize;
                ts[i] = rand_tok(r);
                dist.hit("mut.replace");
            }
            3 if len > 1 => {
                let i = r.below(len as u64 - 1) as usize;
                ts.swap(i, i + 1);
                dist.hit("mut.swap");
            }
            4 if len > 0 => {
                ts.truncate(r.below(len as u64) as usize);
                dist.hit("mut.truncate");
            }
            _ => {
                let i = r.below(len as u64 + 1) as usize;
                let t = if r.chance(1, 2) { T::LP } else { T::RP };
                ts.insert(i, t);
                dist.hit("mut.paren");
            }
        }
    }
}

// ------------------------------------------------------------------------------------ fuzz (child process)
fn nest(open: &str, mid: &str, close: &str, n: usize) -> String {
    let mut s = String::with_capacity(n * (open.len() + close.len()) + mid.len());
    for _ in 0..n {
        s.push_str(open);
    }
    s.push_str(mid);
    for _ in 0..n {
        s.push_str(close);
    }
    s
}
/// the reproduced F-C15-stack inputs and every other bracketed/recursive construct, nested deeply
/// integer-literal extremes in every position where the grammar takes a number
fn numeric_inputs() -> Vec<(String, String)> {
    let nums = [
        "0", "1", "2147483647", "2147483648", "4294967295", "4294967296", "4294967297", "9007199254740992", "9007199254740993",
        "9223372036854775807", "9223372036854775808", "18446744073709551615", "18446744073709551616",
        "1000000000000000000000000000000", "00000000000000000000000000000000000001", "1e400", "1.7976931348623157e308", "4294967296.5",
    ];
    let mut v = vec![];
    for n in nums {
        let mut add = |name: &str, s: String| v.push((format!("num-{name}-{n}"), s));
        add("varchar", format!("CREATE TABLE t (name VARCHAR({n}))"));
        add("char", format!("CREATE TABLE t (name CHAR({n}))"));
        add("decimal-p", format!("CREATE TABLE t (d DECIMAL({n}))"));
        add("decimal-ps", format!("CREATE TABLE t (d DECIMAL(10, {n}))"));
        add("decimal-both", format!("CREATE TABLE t (d DECIMAL({n}, {n}))"));
        add("numeric", format!("CREATE TABLE t (d NUMERIC({n}, 2), e NUMERIC(3, {n}))"));
        add("cast-varchar", format!("SELECT CAST(a AS VARCHAR({n})) FROM t"));
        add("cast-decimal", format!("SELECT CAST(a AS DECIMAL({n}, {n})) FROM t"));
        add("cast-in-where", format!("SELECT a FROM t WHERE CAST(a AS CHAR({n})) = 'x'"));
        add("limit", format!("SELECT a FROM t LIMIT {n}"));
        add("offset", format!("SELECT a FROM t LIMIT 1 OFFSET {n}"));
        add("literal", format!("SELECT {n} FROM t WHERE a = {n} AND b < -{n}"));
        add("in-list", format!("SELECT a FROM t WHERE a IN ({n}, -{n}) OR a BETWEEN {n} AND {n}"));
        add("array", format!("SELECT [{n}, {n}] FROM t"));
        add("insert", format!("INSERT INTO t (a) VALUES ({n}), (-{n})"));
        add("update", format!("UPDATE t SET a = {n} WHERE a = {n}"));
        add("node-id", format!("NODE GET {n}"));
        add("edge", format!("EDGE CREATE {n} -> {n} : knows"));
        add("neighbors", format!("NEIGHBORS {n} OUTGOING"));
        add("path", format!("PATH SHORTEST {n} -> {n}"));
        add("path-limit", format!("PATH 1 -> 2 LIMIT {n}"));
        add("similar-limit", format!("SIMILAR [1.0, 2.0] LIMIT {n}"));
        add("similar-vec", format!("SIMILAR [{n}, {n}] LIMIT 2"));
        add("embed", format!("EMBED STORE 'k' [{n}, -{n}]"));
        add("find-limit", format!("FIND NODE person WHERE a = {n} LIMIT {n}"));
        add("show-embeddings", format!("SHOW EMBEDDINGS LIMIT {n}"));
        add("chain-rollback", format!("CHAIN ROLLBACK {n}"));
        add("chain-drift", format!("CHAIN DRIFT {n} {n}"));
        add("checkpoint", format!("CHECKPOINTS LIMIT {n}"));
        add("expr", format!("{n} + {n} * -{n}"));
        add("varchar-col2", format!("CREATE TABLE t (a INT, b VARCHAR({n}) NOT NULL, c CHAR({n}))"));
    }
    v
}

fn deep_inputs(n: usize) -> Vec<(String, String)> {
    let mut v = vec![];
    let mut add = |name: &str, s: String| v.push((format!("{name}x{n}"), s));
    add("paren-in-select", format!("SELECT {} FROM t", nest("(", "1", ")", n)));
    add("not-in-where", format!("SELECT a FROM t WHERE {}", nest("NOT ", "a", "", n)));
    add("neg-in-where", format!("SELECT a FROM t WHERE {}", nest("- ", "a", "", n)));
    add("tilde-in-where", format!("SELECT a FROM t WHERE {}", nest("~", "a", "", n)));
    add("from-subquery", format!("SELECT a FROM {} ", nest("(SELECT a FROM ", "t", ")", n)));
    add("exists-subquery", format!("SELECT a FROM t WHERE {}", nest("EXISTS (SELECT a FROM t WHERE ", "a = 1", ")", n)));
    add("in-subquery", format!("SELECT a FROM t WHERE {}", nest("a IN (SELECT a FROM t WHERE ", "a = 1", ")", n)));
    add("in-list", format!("SELECT a FROM t WHERE {}", nest("a IN (", "1", ")", n)));
    add("array", format!("SELECT {} FROM t", nest("[", "1", "]", n)));
    add("call", format!("SELECT {} FROM t", nest("f(", "1", ")", n)));
    add("count-call", format!("SELECT {} FROM t", nest("COUNT(", "1", ")", n)));
    add("case", format!("SELECT {} FROM t", nest("CASE WHEN ", "a", " THEN 1 END", n)));
    add("case-operand", format!("SELECT {} FROM t", nest("CASE ", "a", " WHEN 1 THEN 1 END", n)));
    add("cast", format!("SELECT {} FROM t", nest("CAST(", "1", " AS INT)", n)));
    add("like-chain", format!("SELECT a FROM t WHERE {}", nest("a LIKE ", "'x'", "", n)));
    add("between-chain", format!("SELECT a FROM t WHERE {}", nest("a BETWEEN ", "1", " AND 2", n)));
    add("right-nested", format!("SELECT a FROM t WHERE {}", nest("1 - (", "1", ")", n)));
    add("left-chain", format!("SELECT a FROM t WHERE 1{}", " + 1".repeat(n)));
    add("and-chain", format!("SELECT a FROM t WHERE a = 1{}", " AND a = 1".repeat(n / 2)));
    add("tuple", format!("SELECT a FROM t WHERE a IN ({}", nest("(", "1, 2", ")", n) + ")"));
    add("insert-values", format!("INSERT INTO t VALUES ({})", nest("(", "1", ")", n)));
    add("update-set", format!("UPDATE t SET a = {} WHERE a = 1", nest("(", "1", ")", n)));
    add("delete-where", format!("DELETE FROM t WHERE {}", nest("(", "a = 1", ")", n)));
    add("join-subquery", format!("SELECT a FROM t JOIN {} ON a = 1", nest("(SELECT a FROM ", "t", ") s", n)));
    add("expr-paren", nest("(", "1", ")", n));
    add("expr-not", nest("NOT ", "a", "", n));
    add("block-comment", format!("SELECT {} 1", nest("/*", "x", "*/", n)));
    add("unbalanced-open", format!("SELECT {}", "(".repeat(n)));
    add("unbalanced-bracket", format!("SELECT {}", "[".repeat(n)));
    add("embed-vector", format!("EMBED STORE 'k' {}", nest("[", "1.0", "]", n)));
    add("similar-vector", format!("SIMILAR {} LIMIT 5", nest("[", "1.0", "]", n)));
    add("node-props", format!("NODE CREATE person {{ name: {} }}", nest("(", "1", ")", n)));
    add("find-where", format!("FIND NODE person WHERE {}", nest("(", "a = 1", ")", n)));
    v
}
const KEYWORDS: [&str; 60] = [
    "SELECT", "FROM", "WHERE", "AND", "OR", "NOT", "IN", "IS", "NULL", "LIKE", "BETWEEN", "CASE", "WHEN", "THEN", "ELSE",
    "END", "AS", "ON", "JOIN", "LEFT", "GROUP", "BY", "HAVING", "ORDER", "LIMIT", "OFFSET", "INSERT", "INTO", "VALUES",
    "UPDATE", "SET", "DELETE", "CREATE", "TABLE", "DROP", "INDEX", "NODE", "EDGE", "NEIGHBORS", "PATH", "EMBED", "SIMILAR",
    "FIND", "VAULT", "CACHE", "BLOB", "CHECKPOINT", "ROLLBACK", "CHAIN", "BEGIN", "COMMIT", "CLUSTER", "GRAPH", "EXISTS",
    "CAST", "DISTINCT", "COUNT", "SHOW", "DESCRIBE", "INT",
];
const PUNCT: [&str; 30] = [
    "(", ")", "[", "]", "{", "}", ",", ";", ".", ":", "*", "+", "-", "/", "%", "=", "!=", "<", "<=", ">", ">=", "||", "|",
    "&", "^", "<<", ">>", "~", "!", "->",
];
fn gen_where(r: &mut Rng, dist: &mut Dist) -> String {
    let d = r.range(1, 6) as usize;
    let t = gen_tree(r, d, false, dist);
    let mut ts = vec![];
    body(&t, &mut ts);
    render(&ts, r, false).0
}
fn gen_statement(r: &mut Rng, dist: &mut Dist) -> String {
    let w = gen_where(r, dist);
    let k = r.below(22);
    dist.hit(&format!("fuzz.family.{k}"));
    match k {
        0 => format!("SELECT * FROM t WHERE {w}"),
        1 => format!("SELECT a, b AS c, COUNT(*) FROM t WHERE {w} GROUP BY a HAVING {w} ORDER BY a DESC LIMIT 5 OFFSET 2"),
        2 => format!("SELECT DISTINCT a FROM t u JOIN s ON u.a = s.a LEFT JOIN (SELECT a FROM t WHERE {w}) q ON {w}"),
        3 => format!("INSERT INTO t (a, b) VALUES (1, {w}), (2, 's')"),
        4 => format!("UPDATE t SET a = {w}, b = 2 WHERE {w}"),
        5 => format!("DELETE FROM t WHERE {w}"),
        6 => format!(
            "CREATE TABLE t (a INT NOT NULL, b VARCHAR({}), c DECIMAL({}, {}), d CHAR({}), PRIMARY KEY (a))",
            r.pick(&["10", "255", "4294967295", "4294967296", "9223372036854775807", "9223372036854775808"]),
            r.pick(&["10", "4294967296", "18446744073709551615"]),
            r.pick(&["2", "4294967297", "9223372036854775807"]),
            r.pick(&["1", "2147483648", "4294967296"])
        ),
        7 => "CREATE INDEX idx ON t (a)".to_string(),
        8 => "DROP TABLE IF EXISTS t".to_string(),
        9 => format!("NODE CREATE person {{ name: 'x', age: {} }}", r.below(100)),
        10 => format!("EDGE CREATE {} -> {} : knows {{ w: 1.5 }}", r.below(9), r.below(9)),
        11 => format!("NEIGHBORS {} OUTGOING", r.below(9)),
        12 => format!("PATH SHORTEST {} TO {}", r.below(9), r.below(9)),
        13 => "EMBED STORE 'k' [1.0, 2.0, -3.5]".to_string(),
        14 => "SIMILAR [1.0, 2.0] LIMIT 5".to_string(),
        15 => format!("FIND NODE person WHERE {w} LIMIT 3"),
        16 => "SHOW TABLES".to_string(),
        17 => format!("SELECT CASE WHEN {w} THEN 1 ELSE 2 END FROM t"),
        18 => format!("SELECT CAST({w} AS INT), f(a, {w}), [1, 2, {w}] FROM t"),
        19 => format!("SELECT a FROM t WHERE EXISTS (SELECT 1 FROM s WHERE {w}) AND a IN (SELECT a FROM s)"),
        20 => format!("SELECT a FROM t WHERE {w}; SELECT b FROM s WHERE {w};"),
        _ => "CHECKPOINT 'c1'".to_string(),
    }
}
fn gen_fuzz_input(r: &mut Rng, dist: &mut Dist) -> String {
    let k = r.below(100);
    if k < 35 {
        dist.hit("fuzz.valid_statement");
        gen_statement(r, dist)
    } else if k < 60 {
        dist.hit("fuzz.mutated_statement");
        let s = gen_statement(r, dist);
        let mut cs: Vec<char> = s.chars().collect();
        for _ in 0..r.range(1, 4) {
            let len = cs.len().max(1) as u64;
            match r.below(5) {
                0 => {
                    cs.truncate(r.below(len) as usize);
                }
                1 => {
                    let i = r.below(len) as usize;
                    if i < cs.len() {
                        cs.remove(i);
                    }
                }
                2 => {
                    let i = r.below(len) as usize;
                    let c = *r.pick(&['(', ')', '\'', '"', ',', ';', '\0', '\u{e9}', '\u{1F600}', '-', '*', '/', '\\', '\n']);
                    cs.insert(i.min(cs.len()), c);
                }
                3 => {
                    let i = r.below(len) as usize;
                    let j = (i + r.below(12) as usize).min(cs.len());
                    let sl: Vec<char> = cs[i.min(j)..j].to_vec();
                    for _ in 0..r.below(4) {
                        let at = j.min(cs.len());
                        cs.splice(at..at, sl.iter().cloned());
                    }
                }
                _ => {
                    let kw = r.pick(&KEYWORDS).to_string();
                    let i = r.below(len) as usize;
                    let at = i.min(cs.len());
                    cs.splice(at..at, format!(" {kw} ").chars());
                }
            }
        }
        cs.into_iter().collect()
    } else if k < 80 {
        dist.hit("fuzz.token_soup");
        let n = r.range(1, 40);
        let mut s = String::new();
        for _ in 0..n {
            match r.below(6) {
                0 | 1 => {
                    let k: &&str = r.pick(&KEYWORDS);
                    s.push_str(k)
                }
                2 | 3 => {
                    let k: &&str = r.pick(&PUNCT);
                    s.push_str(k)
                }
                4 => s.push_str(atom_text(r.pick(&ATOMS).0)),
                _ => s.push_str(&format!("{}", r.below(1000))),
            }
            if !r.chance(1, 5) {
                s.push(' ');
            }
        }
        s
    } else if k < 95 {
        dist.hit("fuzz.random_chars");
        let n = r.range(0, 200);
        let mut s = String::new();
        for _ in 0..n {
            let c = match r.below(8) {
                0 => char::from_u32(r.below(0x80) as u32).unwrap_or('?'),
                1 => char::from_u32(0x80 + r.below(0x2000) as u32).unwrap_or('?'),
                2 => char::from_u32(0x1F600 + r.below(64) as u32).unwrap_or('?'),
                3 => *r.pick(&['\'', '"', '\\', '-', '/', '*', '(', ')', '[', ']', '.', 'e', 'E']),
                4 => (b'0' + r.below(10) as u8) as char,
                _ => (b' ' + r.below(95) as u8) as char,
            };
            s.push(c);
        }
        s
    } else {
        dist.hit("fuzz.moderate_nesting");
        let n = r.range(2, 80) as usize;
        let v = deep_inputs(n);
        let i = r.below(v.len() as u64) as usize;
        v[i].1.clone()
    }
}

/// child: read hex lines, run every public entry point on each input, print one line per input.
fn child_main(path: &str, start: usize) {
    quiet_panics();
    let file = std::fs::File::open(path).expect("open fuzz file");
    let lines: Vec<String> = BufReader::new(file).lines().map(|l| l.unwrap()).collect();
    // the default stack of a spawned Rust thread (2 MiB): what a server worker thread would have
    let h = std::thread::Builder::new()
        .stack_size(2 * 1024 * 1024)
        .spawn(move || {
            let out = std::io::stdout();
            for (i, l) in lines.iter().enumerate().skip(start) {
                let bytes: Vec<u8> = (0..l.len() / 2).map(|k| u8::from_str_radix(&l[2 * k..2 * k + 2], 16).unwrap()).collect();
                let s = String::from_utf8(bytes).unwrap();
                {
                    let mut o = out.lock();
                    writeln!(o, "B {i}").unwrap();
                    o.flush().unwrap();
                }
                let len = s.len();
                let mut verdict = String::from("ok");
                let span_bad = |st: u32, en: u32| (st as usize) > len || (en as usize) > len || st > en;
                // parse
                let r1 = guarded(AssertUnwindSafe(|| neumann_parser::parse(&s)));
                let r2 = guarded(AssertUnwindSafe(|| neumann_parser::parse(&s)));
                match (&r1, &r2) {
                    (Err(m), _) | (_, Err(m)) => verdict = format!("panic parse: {m}"),
                    (Ok(a), Ok(b)) => {
                        let same = match (a, b) {
                            (Ok(x), Ok(y)) => x == y,
                            (Err(x), Err(y)) => format!("{x}") == format!("{y}"),
                            _ => false,
                        };
                        if !same {
                            verdict = "nondeterministic parse".into();
                        }
                        if let Err(e) = a {
                            if span_bad(e.span.start.0, e.span.end.0) {
                                verdict = format!("error span {}..{} outside input of length {len} (parse)", e.span.start.0, e.span.end.0);
                            }
                        }
                    }
                }
                drop(r1);
                drop(r2);
                match guarded(AssertUnwindSafe(|| neumann_parser::parse_all(&s))) {
                    Err(m) => verdict = format!("panic parse_all: {m}"),
                    Ok(Err(e)) if span_bad(e.span.start.0, e.span.end.0) => {
                        verdict = format!("error span {}..{} outside input of length {len} (parse_all)", e.span.start.0, e.span.end.0)
                    }
                    _ => {}
                }
                match guarded(AssertUnwindSafe(|| neumann_parser::parse_expr(&s))) {
                    Err(m) => verdict = format!("panic parse_expr: {m}"),
                    Ok(Err(e)) if span_bad(e.span.start.0, e.span.end.0) => {
                        verdict = format!("error span {}..{} outside input of length {len} (parse_expr)", e.span.start.0, e.span.end.0)
                    }
                    _ => {}
                }
                match guarded(AssertUnwindSafe(|| neumann_parser::tokenize(&s))) {
                    Err(m) => verdict = format!("panic tokenize: {m}"),
                    Ok(toks) => {
                        for t in &toks {
                            if span_bad(t.span.start.0, t.span.end.0) {
                                verdict = format!("token span {}..{} outside input of length {len}", t.span.start.0, t.span.end.0);
                            }
                        }
                    }
                }
                let mut o = out.lock();
                writeln!(o, "D {i} {verdict}").unwrap();
                o.flush().unwrap();
            }
        })
        .unwrap();
    let _ = h.join();
}

struct FuzzOutcome {
    done: usize,
    hits: Vec<(usize, String, String)>, // (input index, class, what)
}
/// parent: run the child over inputs[..]; on abort / hang record the input and restart after it
fn run_fuzz(exe: &std::path::Path, file: &std::path::Path, n: usize) -> FuzzOutcome {
    let mut out = FuzzOutcome { done: 0, hits: vec![] };
    let mut start = 0usize;
    while start < n {
        let mut child = Command::new(exe)
            .arg("--child")
            .arg(file)
            .arg("--start")
            .arg(start.to_string())
            .arg("--out")
            .arg(file.parent().unwrap())
            .stdout(Stdio::piped())
            .stderr(Stdio::piped())
            .spawn()
            .expect("spawn child");
        let stdout = child.stdout.take().unwrap();
        let (tx, rx) = mpsc::channel::<String>();
        let reader = std::thread::spawn(move || {
            for l in BufReader::new(stdout).lines().map_while(Result::ok) {
                if tx.send(l).is_err() {
                    break;
                }
            }
        });
        let mut current: Option<usize> = None;
        let mut hung = false;
        loop {
            match rx.recv_timeout(Duration::from_secs(30)) {
                Ok(l) => {
                    let mut it = l.splitn(3, ' ');
                    let tag = it.next().unwrap_or("");
                    let i: usize = it.next().and_then(|x| x.parse().ok()).unwrap_or(0);
                    if tag == "B" {
                        current = Some(i);
                    } else if tag == "D" {
                        out.done += 1;
                        current = None;
                        start = i + 1;
                        let v = it.next().unwrap_or("");
                        if v != "ok" {
                            let class = if v.starts_with("panic") {
                                "panic"
                            } else if v.starts_with("nondet") {
                                "nondeterministic"
                            } else {
                                "span-outside-input"
                            };
                            out.hits.push((i, class.to_string(), v.to_string()));
                        }
                    }
                }
                Err(mpsc::RecvTimeoutError::Timeout) => {
                    hung = true;
                    let _ = child.kill();
                    break;
                }
                Err(mpsc::RecvTimeoutError::Disconnected) => break,
            }
        }
        let status = child.wait().ok();
        let _ = reader.join();
        let mut err = String::new();
        if let Some(mut e) = child.stderr.take() {
            use std::io::Read;
            let _ = e.read_to_string(&mut err);
        }
        if let Some(i) = current {
            let what = if hung {
                ("hang", "no answer within 30 s".to_string())
            } else if err.contains("stack overflow") {
                ("stack-overflow", "process aborted: stack overflow".to_string())
            } else {
                ("abort", format!("process died ({status:?}): {}", err.chars().take(160).collect::<String>()))
            };
            out.hits.push((i, what.0.to_string(), what.1));
            start = i + 1;
        } else if start < n && status.map(|s| s.success()).unwrap_or(false) {
            break; // child finished the file
        } else if current.is_none() && start < n {
            // died between inputs: skip one to guarantee progress
            start += 1;
        }
    }
    out
}


// ------------------------------------------------------------------------------------ text = direct engine call
// Twin routers: A is driven by statement TEXT (WHERE clauses printed with the minimal parentheses
// of the documented precedence), B by the equivalent direct RelationalEngine calls built from the
// same trees.  After every statement the results and the whole table must coincide.
mod router_diff {
    use super::*;
    use query_router::{QueryResult, QueryRouter};
    use relational_engine::{Column, ColumnType, Condition, Row, Schema, Value};
    use std::collections::HashMap;

    fn leaf(r: &mut Rng) -> M {
        let op = r.range(2, 7);
        if r.chance(1, 4) {
            M::Bin(op, a(103), Box::new(M::Atom(*r.pick(&[4u64, 5, 9]))))
        } else {
            M::Bin(op, a(*r.pick(&[100u64, 101])), Box::new(M::Atom(*r.pick(&[1u64, 2, 3]))))
        }
    }
    pub fn where_tree(r: &mut Rng, depth: usize) -> M {
        if depth == 0 || r.chance(1, 4) {
            return leaf(r);
        }
        let o = if r.chance(1, 2) { 0 } else { 1 }; // OR / AND
        M::Bin(o, Box::new(where_tree(r, depth - 1)), Box::new(where_tree(r, depth - 1)))
    }
    fn lit(c: u64) -> Value {
        match c {
            1 => Value::Int(1),
            2 => Value::Int(2),
            3 => Value::Int(42),
            4 => Value::String("s".into()),
            5 => Value::String(String::new()),
            _ => Value::String("n\u{e9}\u{4e16}".into()),
        }
    }
    fn colname(c: u64) -> String {
        match c {
            100 => "a".into(),
            101 => "b".into(),
            _ => "x".into(),
        }
    }
    pub fn to_cond(e: &M) -> Condition {
        match e {
            M::Bin(0, l, r) => Condition::Or(Box::new(to_cond(l)), Box::new(to_cond(r))),
            M::Bin(1, l, r) => Condition::And(Box::new(to_cond(l)), Box::new(to_cond(r))),
            M::Bin(op, l, r) => {
                let (c, v) = match (&**l, &**r) {
                    (M::Atom(c), M::Atom(v)) => (colname(*c), lit(*v)),
                    _ => unreachable!(),
                };
                match op {
                    2 => Condition::Eq(c, v),
                    3 => Condition::Ne(c, v),
                    4 => Condition::Lt(c, v),
                    5 => Condition::Le(c, v),
                    6 => Condition::Gt(c, v),
                    _ => Condition::Ge(c, v),
                }
            }
            _ => unreachable!(),
        }
    }
    fn text_of(e: &M, r: &mut Rng) -> String {
        let mut ts = vec![];
        body(e, &mut ts);
        render(&ts, r, false).0
    }
    /// single spaces, no comments: the lexical form the legacy string-splitting entry point reads
    fn plain_text_of(e: &M, r: &mut Rng) -> String {
        let mut ts = vec![];
        body(e, &mut ts);
        render(&ts, r, true).0
    }
    fn canon(rows: &[Row]) -> Vec<String> {
        let mut v: Vec<String> = rows
            .iter()
            .map(|r| format!("{}:{:?}/{:?}/{:?}", r.id, r.get("a"), r.get("b"), r.get("x")))
            .collect();
        v.sort();
        v
    }
    fn new_router() -> QueryRouter {
        let r = QueryRouter::new();
        r.relational()
            .create_table(
                "t",
                Schema::new(vec![
                    Column::new("a", ColumnType::Int),
                    Column::new("b", ColumnType::Int).nullable(),
                    Column::new("x", ColumnType::String),
                ]),
            )
            .unwrap();
        r
    }
    /// returns (statements run, per-entry mismatch descriptions)
    /// corpus: the witness of C15_legacy_execute_refuted replayed on the real router
    fn corpus(hits: &mut Hits, dist: &mut Dist) -> usize {
        let q = new_router();
        for (a1, b1, x1) in [(1i64, 7i64, "t"), (5, 2, "s"), (5, 2, "t")] {
            let mut m = HashMap::new();
            m.insert("a".to_string(), Value::Int(a1));
            m.insert("b".to_string(), Value::Int(b1));
            m.insert("x".to_string(), Value::String(x1.into()));
            q.relational().insert("t", m).unwrap();
        }
        let sql = "SELECT * FROM t WHERE a = 1 OR b = 2 AND x = 's'";
        let cond = Condition::Or(
            Box::new(Condition::Eq("a".into(), Value::Int(1))),
            Box::new(Condition::And(
                Box::new(Condition::Eq("b".into(), Value::Int(2))),
                Box::new(Condition::Eq("x".into(), Value::String("s".into()))),
            )),
        );
        let want = canon(&q.relational().select("t", cond).unwrap());
        let rows_of = |r: std::result::Result<QueryResult, String>| match r {
            Ok(QueryResult::Rows(rows)) => canon(&rows),
            other => vec![format!("{other:?}")],
        };
        let parsed = rows_of(q.execute_parsed(sql).map_err(|e| e.to_string()));
        let legacy = rows_of(q.execute(sql).map_err(|e| e.to_string()));
        if parsed != want {
            hits.push("text-vs-direct", &format!("execute_parsed({sql:?}) -> {parsed:?}; direct call -> {want:?}"), json!({"sql": sql}));
        }
        if legacy != want {
            // F-C15 legacy AND/OR grouping (fixed in 03a8e25d)
            hits.push("legacy-execute-other", &format!("corpus: QueryRouter::execute({sql:?}) -> {legacy:?}; direct call -> {want:?}"), json!({"sql": sql}));
            dist.hit("router.differs.execute");
        }
        // witness of C15_legacy_execute_refuted: parentheses
        let sql2 = "SELECT * FROM t WHERE (a >= 3)";
        let want2 = canon(&q.relational().select("t", Condition::Ge("a".into(), Value::Int(3))).unwrap());
        let parsed2 = rows_of(q.execute_parsed(sql2).map_err(|e| e.to_string()));
        let legacy2 = rows_of(q.execute(sql2).map_err(|e| e.to_string()));
        if parsed2 != want2 {
            hits.push("text-vs-direct", &format!("execute_parsed({sql2:?}) -> {parsed2:?}; direct call -> {want2:?}"), json!({"sql": sql2}));
        }
        if legacy2 != want2 {
            hits.push("legacy-execute-parentheses", &format!("corpus: QueryRouter::execute({sql2:?}) -> {legacy2:?}; direct call -> {want2:?}"), json!({"sql": sql2}));
            dist.hit("router.differs.execute");
        }
        4
    }

    // ---- statement sequences incl. DDL and no-op writes, text routers with the query cache ON and OFF
    // against direct engine calls; the same SELECT texts are repeated so that a cached answer is used
    // whenever the router keeps one.
    #[derive(Clone, Debug)]
    pub enum St {
        Create,
        Drop,
        CreateIndex(&'static str),
        DropIndex(&'static str),
        Insert(i64, Option<i64>, &'static str),
        /// INSERT INTO t (cols...) VALUES (lits...): explicit list in any order / subset / duplicates /
        /// unknown columns; None = no column list (schema order)
        InsertCols(Option<Vec<&'static str>>, Vec<Vec<u64>>),
        Update(i64, M),
        Delete(M),
        Select(String, Option<M>), // text after WHERE (None = no WHERE clause)
    }
    fn st_text(s: &St, _r: &mut Rng) -> String {
        match s {
            St::Create => "CREATE TABLE t (a INT NOT NULL, b INT, x TEXT NOT NULL)".into(),
            St::Drop => "DROP TABLE t".into(),
            St::CreateIndex(c) => format!("CREATE INDEX idx_{c} ON t ({c})"),
            St::DropIndex(c) => format!("DROP INDEX ON t ({c})"),
            St::Insert(a1, b1, x1) => match b1 {
                Some(b1) => format!("INSERT INTO t (a, b, x) VALUES ({a1}, {b1}, '{x1}')"),
                None => format!("INSERT INTO t (a, x) VALUES ({a1}, '{x1}')"),
            },
            St::InsertCols(cols, rows) => {
                let vals: Vec<String> =
                    rows.iter().map(|row| format!("({})", row.iter().map(|v| lit2_sql(*v)).collect::<Vec<_>>().join(", "))).collect();
                match cols {
                    Some(cols) => format!("INSERT INTO t ({}) VALUES {}", cols.join(", "), vals.join(", ")),
                    None => format!("INSERT INTO t VALUES {}", vals.join(", ")),
                }
            }
            St::Update(nv, e) => format!("UPDATE t SET b = {nv} WHERE {}", cond2_sql(e)),
            St::Delete(e) => format!("DELETE FROM t WHERE {}", cond2_sql(e)),
            St::Select(w, _) => {
                if w.is_empty() {
                    "SELECT * FROM t".into()
                } else {
                    format!("SELECT * FROM t WHERE {w}")
                }
            }
        }
    }
    /// outcome of a statement, comparable between text and direct execution
    fn direct(q: &QueryRouter, s: &St) -> String {
        let e = q.relational();
        let ok = |r: std::result::Result<(), String>| if r.is_ok() { "ok".to_string() } else { "err".to_string() };
        match s {
            St::Create => ok(e
                .create_table(
                    "t",
                    Schema::new(vec![
                        Column::new("a", ColumnType::Int),
                        Column::new("b", ColumnType::Int).nullable(),
                        Column::new("x", ColumnType::String),
                    ]),
                )
                .map_err(|x| x.to_string())),
            St::Drop => ok(e.drop_table("t").map_err(|x| x.to_string())),
            St::CreateIndex(c) => ok(e.create_index("t", c).map_err(|x| x.to_string())),
            St::DropIndex(c) => ok(e.drop_index("t", c).map_err(|x| x.to_string())),
            St::Insert(a1, b1, x1) => {
                let mut m = HashMap::new();
                m.insert("a".to_string(), Value::Int(*a1));
                if let Some(b1) = b1 {
                    m.insert("b".to_string(), Value::Int(*b1));
                }
                m.insert("x".to_string(), Value::String((*x1).into()));
                ok(e.insert("t", m).map(|_| ()).map_err(|x| x.to_string()))
            }
            St::InsertCols(cols, rows) => {
                // the statement names a column for every value (the i-th listed column, or the i-th
                // schema column without a list); rows are inserted one after the other
                let schema_order = ["a", "b", "x"];
                let mut all_ok = true;
                for row in rows {
                    let mut m = HashMap::new();
                    let names: Vec<&str> = match cols {
                        Some(c) => c.clone(),
                        None => schema_order.to_vec(),
                    };
                    for (cname, v) in names.iter().zip(row.iter()) {
                        m.insert((*cname).to_string(), lit2(*v));
                    }
                    if e.insert("t", m).is_err() {
                        all_ok = false;
                        break;
                    }
                }
                if all_ok { "ok".to_string() } else { "err".to_string() }
            }
            St::Update(nv, c) => {
                let mut m = HashMap::new();
                m.insert("b".to_string(), Value::Int(*nv));
                match e.update("t", to_cond2(c), m) {
                    Ok(k) => format!("count {k}"),
                    Err(_) => "err".into(),
                }
            }
            St::Delete(c) => ok(e.delete_rows("t", to_cond2(c)).map(|_| ()).map_err(|x| x.to_string())),
            St::Select(_, c) => {
                let cond = c.as_ref().map(to_cond2).unwrap_or(Condition::True);
                match e.select("t", cond) {
                    Ok(rows) => format!("rows {:?}", canon(&rows)),
                    Err(_) => "err".into(),
                }
            }
        }
    }
    fn via_text(q: &QueryRouter, s: &St, sql: &str) -> String {
        let res = guarded(AssertUnwindSafe(|| q.execute_parsed(sql).map_err(|e| e.to_string())));
        match res {
            Err(p) => format!("panic {p}"),
            Ok(Err(_)) => "err".into(),
            Ok(Ok(qr)) => match (s, qr) {
                (St::Select(..), QueryResult::Rows(rows)) => format!("rows {:?}", canon(&rows)),
                (St::Update(..), QueryResult::Count(k)) => format!("count {k}"),
                (St::Select(..), other) | (St::Update(..), other) => format!("other {other:?}"),
                _ => "ok".into(),
            },
        }
    }
    /// conditions of the cached runs: column a|b|x against literals, incl. string literals that differ
    /// only in letter case and a literal no row has (777: the no-op writes)
    fn lit2(c: u64) -> Value {
        match c {
            1 => Value::Int(1),
            2 => Value::Int(2),
            3 => Value::Int(777),
            4 => Value::String("s".into()),
            5 => Value::String("S".into()),
            _ => Value::String(String::new()),
        }
    }
    fn to_cond2(e: &M) -> Condition {
        match e {
            M::Bin(0, l, r) => Condition::Or(Box::new(to_cond2(l)), Box::new(to_cond2(r))),
            M::Bin(1, l, r) => Condition::And(Box::new(to_cond2(l)), Box::new(to_cond2(r))),
            M::Bin(op, l, r) => {
                let (c, v) = match (&**l, &**r) {
                    (M::Atom(c), M::Atom(v)) => (colname(*c), lit2(*v)),
                    _ => unreachable!(),
                };
                match op {
                    2 => Condition::Eq(c, v),
                    3 => Condition::Ne(c, v),
                    4 => Condition::Lt(c, v),
                    5 => Condition::Le(c, v),
                    6 => Condition::Gt(c, v),
                    _ => Condition::Ge(c, v),
                }
            }
            _ => unreachable!(),
        }
    }
    fn lit2_sql(c: u64) -> &'static str {
        match c {
            1 => "1",
            2 => "2",
            3 => "777",
            4 => "'s'",
            5 => "'S'",
            _ => "''",
        }
    }
    fn cond2_sql(e: &M) -> String {
        match e {
            M::Bin(0, l, r) => format!("{} OR {}", cond2_sql(l), cond2_sql(r)),
            M::Bin(1, l, r) => {
                let p = |x: &M| if matches!(x, M::Bin(0, ..)) { format!("({})", cond2_sql(x)) } else { cond2_sql(x) };
                format!("{} AND {}", p(l), p(r))
            }
            M::Bin(op, l, r) => match (&**l, &**r) {
                (M::Atom(c), M::Atom(v)) => {
                    format!("{} {} {}", colname(*c), ["=", "!=", "<", "<=", ">", ">="][(*op - 2) as usize], lit2_sql(*v))
                }
                _ => unreachable!(),
            },
            _ => unreachable!(),
        }
    }
    fn leaf2(r: &mut Rng) -> M {
        if r.chance(1, 3) {
            M::Bin(*r.pick(&[2u64, 3]), a(103), Box::new(M::Atom(*r.pick(&[4u64, 5, 6]))))
        } else {
            M::Bin(r.range(2, 7), a(*r.pick(&[100u64, 101])), Box::new(M::Atom(*r.pick(&[1u64, 2, 3]))))
        }
    }
    fn cond2(r: &mut Rng) -> M {
        match r.below(4) {
            0 => M::Bin(1, Box::new(leaf2(r)), Box::new(leaf2(r))),
            1 => M::Bin(0, Box::new(leaf2(r)), Box::new(leaf2(r))),
            _ => leaf2(r),
        }
    }
    fn select_pool() -> Vec<St> {
        let eq = |c: u64, v: u64| M::Bin(2, a(c), Box::new(M::Atom(v)));
        let mut v = vec![St::Select(String::new(), None)];
        for e in [eq(100, 1), eq(100, 3), eq(103, 4), eq(103, 5), M::Bin(6, a(101), Box::new(M::Atom(1))), M::Bin(0, Box::new(eq(100, 2)), Box::new(eq(103, 5)))] {
            v.push(St::Select(cond2_sql(&e), Some(e)));
        }
        v
    }
    fn run_seq(seq: &[St], tag: &str, r: &mut Rng, dist: &mut Dist, hits: &mut Hits) -> usize {
        let mut cached = QueryRouter::new();
        cached.init_cache();
        let plain = QueryRouter::new();
        let reference = QueryRouter::new();
        let mut trace: Vec<String> = vec![];
        for (i, s) in seq.iter().enumerate() {
            let sql = st_text(s, r);
            trace.push(sql.clone());
            let want = direct(&reference, s);
            let got_c = via_text(&cached, s, &sql);
            let got_p = via_text(&plain, s, &sql);
            let dump = |q: &QueryRouter| match q.relational().select("t", Condition::True) {
                Ok(rows) => format!("{:?}", canon(&rows)),
                Err(_) => "no table".to_string(),
            };
            let (dc, dp, dr) = (dump(&cached), dump(&plain), dump(&reference));
            dist.hit(match s {
                St::Select(..) => "cached.select",
                St::Create | St::Drop => "cached.table_ddl",
                St::CreateIndex(_) | St::DropIndex(_) => "cached.index_ddl",
                St::Insert(..) => "cached.insert",
                St::InsertCols(..) => "cached.insert_column_list",
                St::Update(..) | St::Delete(_) => "cached.update_delete",
            });
            if want.starts_with("count 0") {
                dist.hit("cached.noop_write");
            }
            let cmp_result = !matches!(s, St::Delete(_));
            if (cmp_result && got_p != want) || dp != dr {
                hits.push(
                    "text-vs-direct",
                    &format!("{tag}: statement {i} {sql:?} through execute_parsed (cache off) -> {got_p} / table {dp}; direct engine call -> {want} / table {dr}"),
                    json!({"trace": trace.clone()}),
                );
                dist.hit("cached.differs.cache_off");
                return i + 1;
            }
            if (cmp_result && got_c != want) || dc != dr {
                hits.push(
                    "text-vs-direct-cache-on",
                    &format!("{tag}: statement {i} {sql:?} through execute_parsed with the query cache on -> {got_c}; direct engine call -> {want}; statements so far: {trace:?}"),
                    json!({"trace": trace.clone()}),
                );
                dist.hit("cached.differs.cache_on");
                return i + 1;
            }
        }
        seq.len()
    }
    /// string literals that differ only in whitespace runs / tabs / newlines / letter case / trailing
    /// or leading spaces, stored in separate rows and then queried back to back WITHOUT any write in
    /// between, cache on and cache off, each answer compared with the direct engine call
    fn literal_variants(r: &mut Rng, random: bool, dist: &mut Dist, hits: &mut Hits) -> usize {
        let base: Vec<&str> = vec![
            "Ann Lee", "Ann  Lee", "Ann   Lee", "Ann\tLee", "Ann\nLee", "Ann Lee ", " Ann Lee", "ann lee", "ANN LEE", "AnnLee", "Ann \t Lee",
            "Ann Lee  ", "", " ", "  ",
        ];
        let mut names: Vec<&str> = base.clone();
        if random {
            r.shuffle(&mut names);
            names.truncate(r.range(4, 9) as usize);
        }
        let mut cached = QueryRouter::new();
        cached.init_cache();
        let plain = QueryRouter::new();
        let reference = QueryRouter::new();
        let mut trace: Vec<String> = vec![];
        let mut n = 0usize;
        let ddl = "CREATE TABLE people (id INT NOT NULL, name TEXT NOT NULL)";
        for q in [&cached, &plain] {
            let _ = q.execute_parsed(ddl);
        }
        reference
            .relational()
            .create_table("people", Schema::new(vec![Column::new("id", ColumnType::Int), Column::new("name", ColumnType::String)]))
            .unwrap();
        trace.push(ddl.to_string());
        // one row per variant (text INSERT on the text routers, direct insert on the reference)
        for (i, nm) in names.iter().enumerate() {
            // a raw line break cannot stand inside a literal (the lexer ends it there): written as \n
            let sql = format!("INSERT INTO people (id, name) VALUES ({}, '{}')", i + 1, nm.replace('\n', "\\n"));
            for q in [&cached, &plain] {
                let _ = q.execute_parsed(&sql);
            }
            let mut m = HashMap::new();
            m.insert("id".to_string(), Value::Int(i as i64 + 1));
            m.insert("name".to_string(), Value::String((*nm).to_string()));
            let _ = reference.relational().insert("people", m);
            trace.push(sql);
        }
        let ids = |rows: &[Row]| {
            let mut v: Vec<String> = rows.iter().map(|r| format!("{}:{:?}", r.id, r.get("name"))).collect();
            v.sort();
            v
        };
        // back-to-back reads, several rounds so that every text is asked again once it is cached;
        // also layout variants of the statement itself (outside the literal)
        let mut order: Vec<usize> = (0..names.len()).collect();
        for round in 0..3 {
            if random || round > 0 {
                r.shuffle(&mut order);
            }
            for &i in &order {
                let nm = names[i];
                let nm_sql = nm.replace('\n', "\\n");
                for (op, sqlop) in [(0u64, "="), (1, "!=")] {
                    if op == 1 && round > 0 {
                        continue;
                    }
                    let layout = match (round + i) % 3 {
                        0 => format!("SELECT * FROM people WHERE name {sqlop} '{nm_sql}'"),
                        1 => format!("SELECT  *  FROM people\nWHERE name {sqlop}   '{nm_sql}'"),
                        _ => format!("SELECT * FROM people WHERE\tname {sqlop} '{nm_sql}' "),
                    };
                    let cond = if op == 0 { Condition::Eq("name".into(), Value::String(nm.to_string())) } else { Condition::Ne("name".into(), Value::String(nm.to_string())) };
                    let want = match reference.relational().select("people", cond) {
                        Ok(rows) => format!("rows {:?}", ids(&rows)),
                        Err(_) => "err".to_string(),
                    };
                    trace.push(layout.clone());
                    n += 1;
                    dist.hit("cached.literal_variant_select");
                    for (q, class, how) in [(&plain, "text-vs-direct", "cache off"), (&cached, "text-vs-direct-cache-on", "query cache on")] {
                        let got = match guarded(AssertUnwindSafe(|| q.execute_parsed(&layout).map_err(|e| e.to_string()))) {
                            Ok(Ok(QueryResult::Rows(rows))) => format!("rows {:?}", ids(&rows)),
                            Ok(Ok(other)) => format!("other {other:?}"),
                            Ok(Err(_)) => "err".to_string(),
                            Err(p) => format!("panic {p}"),
                        };
                        if got != want {
                            hits.push(
                                class,
                                &format!("literal variants: {layout:?} through execute_parsed ({how}) -> {got}; direct engine call -> {want}; no write since the inserts; reads so far: {:?}", &trace[names.len() + 1..]),
                                json!({"trace": trace.clone()}),
                            );
                            dist.hit(if class == "text-vs-direct" { "cached.differs.cache_off" } else { "cached.differs.cache_on" });
                            return n;
                        }
                    }
                }
            }
        }
        n
    }

    /// the cache must be transparent: the same statement texts on a router with the query cache on
    /// and on one without give the same answers (graph / vector families: NEIGHBORS, SIMILAR are cached)
    fn transparent(stmts: &[String], tag: &str, dist: &mut Dist, hits: &mut Hits) -> usize {
        let mut cached = QueryRouter::new();
        cached.init_cache();
        let plain = QueryRouter::new();
        for (i, sql) in stmts.iter().enumerate() {
            let run = |q: &QueryRouter| match guarded(AssertUnwindSafe(|| q.execute_parsed(sql).map_err(|e| e.to_string()))) {
                Ok(Ok(x)) => format!("{x:?}"),
                Ok(Err(_)) => "err".to_string(),
                Err(p) => format!("panic {p}"),
            };
            let (c, p) = (run(&cached), run(&plain));
            dist.hit("cached.graph_vector_stmt");
            if c != p {
                hits.push(
                    "text-vs-direct-cache-on",
                    &format!("{tag}: statement {i} {sql:?} with the query cache on -> {c}; without the cache -> {p}; statements so far: {:?}", &stmts[..=i]),
                    json!({"trace": stmts[..=i].to_vec()}),
                );
                dist.hit("cached.differs.cache_on");
                return i + 1;
            }
        }
        stmts.len()
    }

    pub fn run_cached(r: &mut Rng, n_scen: usize, dist: &mut Dist, hits: &mut Hits) -> usize {
        let mut gtotal = literal_variants(r, false, dist, hits);
        for _ in 0..(n_scen / 12).max(3) {
            gtotal += literal_variants(r, true, dist, hits);
        }
        {
            let corpus: Vec<String> = [
                "NODE CREATE person {name: 'a'}", "NODE CREATE person {name: 'b'}", "NODE CREATE person {name: 'c'}",
                "EDGE CREATE 1 -> 2 : knows", "NEIGHBORS 1 OUTGOING", "EDGE CREATE 1 -> 3 : knows", "NEIGHBORS 1 OUTGOING",
                "NEIGHBORS 3 INCOMING", "EMBED STORE 'k1' [1.0, 0.0]", "SIMILAR [1.0, 0.0] LIMIT 5", "EMBED STORE 'k2' [0.9, 0.1]",
                "SIMILAR [1.0, 0.0] LIMIT 5", "EMBED DELETE 'k1'", "SIMILAR [1.0, 0.0] LIMIT 5",
            ]
            .iter()
            .map(|x| x.to_string())
            .collect();
            gtotal += transparent(&corpus, "corpus graph/vector", dist, hits);
            for _ in 0..(n_scen / 8).max(4) {
                let mut v: Vec<String> = (0..4).map(|i| format!("NODE CREATE person {{name: 'n{i}'}}")).collect();
                for _ in 0..r.range(8, 20) {
                    let (x, y) = (r.range(1, 4), r.range(1, 4));
                    v.push(match r.below(6) {
                        0 | 1 => format!("EDGE CREATE {x} -> {y} : knows"),
                        2 | 3 => format!("NEIGHBORS {x} {}", r.pick(&["OUTGOING", "INCOMING", "BOTH"])),
                        4 => format!("EMBED STORE 'k{x}' [{}.0, {}.5]", x, y),
                        _ => "SIMILAR [1.0, 0.5] LIMIT 3".to_string(),
                    });
                }
                gtotal += transparent(&v, "random graph/vector", dist, hits);
            }
        }
        let pool = select_pool();
        let sel = |i: usize| pool[i].clone();
        let none_cond = M::Bin(2, a(100), Box::new(M::Atom(3))); // a = 777: matches nothing
        let mut total = 0usize;
        // corpus: DDL and no-op writes between two executions of the same SELECT text
        let corpus: Vec<(&str, Vec<St>)> = vec![
            ("corpus drop/recreate", vec![
                St::Create, St::Insert(1, Some(2), "s"), St::Insert(2, None, "S"), sel(0), sel(1), St::Drop, sel(0), sel(1),
                St::Create, sel(0), sel(1), St::Insert(1, Some(1), ""), sel(0), sel(1),
            ]),
            ("corpus no-op writes", vec![
                St::Create, St::Insert(1, Some(2), "s"), sel(0), St::Update(5, none_cond.clone()), sel(0),
                St::Delete(none_cond.clone()), sel(0), St::Insert(2, Some(2), "S"), sel(0), St::Update(9, M::Bin(2, a(100), Box::new(M::Atom(2)))), sel(0), sel(4),
            ]),
            ("corpus index ddl", vec![
                St::Create, St::Insert(1, Some(2), "s"), St::Insert(2, Some(1), "S"), sel(1), sel(3), St::CreateIndex("a"), sel(1), St::CreateIndex("x"), sel(3), sel(4),
                St::DropIndex("a"), sel(1), St::DropIndex("x"), sel(3), St::DropIndex("x"), sel(3),
            ]),
            ("corpus insert column lists", vec![
                St::Create,
                St::InsertCols(Some(vec!["b", "a", "x"]), vec![vec![2, 1, 4]]),          // permuted, same types: b=2, a=1
                sel(0),
                St::InsertCols(Some(vec!["x", "a"]), vec![vec![5, 2]]),                  // subset, permuted, mixed types
                sel(0),
                St::InsertCols(Some(vec!["x", "b", "a"]), vec![vec![4, 1, 2], vec![6, 2, 1]]), // multi-row
                sel(0), sel(1),
                St::InsertCols(Some(vec!["a", "x", "a"]), vec![vec![1, 4, 2]]),          // duplicate column
                sel(0),
                St::InsertCols(Some(vec!["a", "nope", "x"]), vec![vec![1, 2, 4]]),       // unknown column
                sel(0),
                St::InsertCols(Some(vec!["nope", "a", "x"]), vec![vec![2, 1, 5]]),
                sel(0),
                St::InsertCols(None, vec![vec![1, 2, 4]]),                               // no list: schema order
                St::InsertCols(None, vec![vec![2, 1]]),                                  // fewer values than columns
                St::InsertCols(Some(vec!["b", "a"]), vec![vec![1, 2]]),                  // NOT NULL x missing
                sel(0), sel(3),
            ]),
            ("corpus failed multi-row insert", vec![
                St::Create, St::InsertCols(Some(vec!["a", "b", "x"]), vec![vec![2, 2, 6]]), sel(0), sel(1),
                // second row has a type error: the first row stays, the statement answers with an error
                St::InsertCols(Some(vec!["x", "b", "a"]), vec![vec![4, 2, 1], vec![5, 6, 2]]),
                sel(0), sel(1), sel(3),
                St::Update(9, M::Bin(2, a(103), Box::new(M::Atom(4)))), sel(0),
            ]),
            ("corpus literal case", vec![
                St::Create, St::Insert(1, Some(2), "s"), St::Insert(2, Some(2), "S"), sel(3), sel(4), sel(3), sel(6), sel(4),
            ]),
        ];
        for (tag, seq) in &corpus {
            total += run_seq(seq, tag, r, dist, hits);
        }
        for _ in 0..n_scen {
            let mut seq = vec![St::Create];
            let n = r.range(10, 26);
            for _ in 0..n {
                let k = r.below(100);
                seq.push(if k < 42 {
                    if r.chance(3, 4) {
                        sel(r.below(pool.len() as u64) as usize)
                    } else {
                        let e = cond2(r);
                        St::Select(cond2_sql(&e), Some(e))
                    }
                } else if k < 50 {
                    // explicit column lists: permutations, subsets, duplicates, unknown columns
                    let mut cols: Vec<&'static str> = vec!["a", "b", "x"];
                    r.shuffle(&mut cols);
                    if r.chance(1, 3) {
                        let i = r.below(cols.len() as u64) as usize;
                        cols.remove(i);
                    }
                    if r.chance(1, 6) {
                        let i = r.below(cols.len() as u64 + 1) as usize;
                        cols.insert(i, *r.pick(&["nope", "a", "x"]));
                    }
                    let nrows = r.range(1, 2) as usize;
                    let rows: Vec<Vec<u64>> = (0..nrows)
                        .map(|_| {
                            cols.iter()
                                .map(|c| {
                                    if r.chance(1, 10) {
                                        r.range(1, 6)
                                    } else if *c == "x" {
                                        *r.pick(&[4u64, 5, 6])
                                    } else {
                                        *r.pick(&[1u64, 2, 3])
                                    }
                                })
                                .collect()
                        })
                        .collect();
                    St::InsertCols(if r.chance(1, 8) { None } else { Some(cols) }, rows)
                } else if k < 58 {
                    St::Insert(*r.pick(&[1i64, 2, 42]), if r.chance(3, 4) { Some(*r.pick(&[1i64, 2])) } else { None }, *r.pick(&["s", "S", ""]))
                } else if k < 68 {
                    St::Update(*r.pick(&[1i64, 2, 5]), if r.chance(1, 2) { none_cond.clone() } else { cond2(r) })
                } else if k < 76 {
                    St::Delete(if r.chance(1, 2) { none_cond.clone() } else { cond2(r) })
                } else if k < 84 {
                    St::CreateIndex(*r.pick(&["a", "b", "x"]))
                } else if k < 90 {
                    St::DropIndex(*r.pick(&["a", "b", "x"]))
                } else if k < 95 {
                    St::Drop
                } else {
                    St::Create
                });
                if matches!(seq.last(), Some(St::Drop)) && r.chance(2, 3) {
                    seq.push(sel(r.below(pool.len() as u64) as usize));
                    seq.push(St::Create);
                }
            }
            total += run_seq(&seq, "random", r, dist, hits);
        }
        total + gtotal
    }

    pub fn run(r: &mut Rng, n_scen: usize, dist: &mut Dist, hits: &mut Hits) -> usize {
        let mut total = corpus(hits, dist);
        for _ in 0..n_scen {
            let ta = new_router(); // text through execute_parsed
            let tl = new_router(); // text through the legacy execute
            let tb = new_router(); // direct calls
            let mut trace: Vec<String> = vec![];
            let steps = r.range(6, 16);
            for _ in 0..steps {
                let k = r.below(100);
                let mut legacy_sql = String::new();
                let (sql, direct): (String, Box<dyn Fn(&QueryRouter) -> String>) = if k < 40 || trace.len() < 3 {
                    let (av, bv, xv) = (*r.pick(&[1i64, 2, 42]), *r.pick(&[1i64, 2, 42]), *r.pick(&["s", "", "n\u{e9}\u{4e16}"]));
                    let with_b = r.chance(3, 4);
                    let sql = if with_b {
                        format!("INSERT INTO t (a, b, x) VALUES ({av}, {bv}, '{xv}')")
                    } else {
                        format!("INSERT INTO t (a, x) VALUES ({av}, '{xv}')")
                    };
                    dist.hit("router.insert");
                    let xv = xv.to_string();
                    (sql, Box::new(move |q: &QueryRouter| {
                        let mut m = HashMap::new();
                        m.insert("a".to_string(), Value::Int(av));
                        if with_b {
                            m.insert("b".to_string(), Value::Int(bv));
                        }
                        m.insert("x".to_string(), Value::String(xv.clone()));
                        format!("{:?}", q.relational().insert("t", m).map_err(|e| e.to_string()))
                    }))
                } else {
                    let e = where_tree(r, 3);
                    let w = text_of(&e, r);
                    let cond = to_cond(&e);
                    if k < 55 {
                        let nv = *r.pick(&[1i64, 2, 42]);
                        dist.hit("router.update");
                        (format!("UPDATE t SET b = {nv} WHERE {w}"), Box::new(move |q: &QueryRouter| {
                            let mut m = HashMap::new();
                            m.insert("b".to_string(), Value::Int(nv));
                            format!("{:?}", q.relational().update("t", cond.clone(), m).map_err(|e| e.to_string()))
                        }))
                    } else if k < 65 {
                        dist.hit("router.delete");
                        (format!("DELETE FROM t WHERE {w}"), Box::new(move |q: &QueryRouter| {
                            format!("{:?}", q.relational().delete_rows("t", cond.clone()).map_err(|e| e.to_string()))
                        }))
                    } else {
                        dist.hit("router.select");
                        legacy_sql = format!("SELECT * FROM t WHERE {}", plain_text_of(&e, r));
                        (format!("SELECT * FROM t WHERE {w}"), Box::new(move |q: &QueryRouter| {
                            format!("{:?}", q.relational().select("t", cond.clone()).map(|rows| canon(&rows)).map_err(|e| e.to_string()))
                        }))
                    }
                };
                total += 1;
                trace.push(sql.clone());
                let show = |res: std::result::Result<QueryResult, String>| -> String {
                    match res {
                        Ok(QueryResult::Rows(rows)) => format!("{:?}", Ok::<_, String>(canon(&rows))),
                        Ok(QueryResult::Ids(ids)) => format!("{:?}", Ok::<_, String>(ids[0])),
                        Ok(QueryResult::Count(c)) => format!("{:?}", Ok::<_, String>(c)),
                        Ok(other) => format!("other {other:?}"),
                        Err(e) => format!("Err({e:?})"),
                    }
                };
                let want = direct(&tb);
                let got_a = match guarded(AssertUnwindSafe(|| ta.execute_parsed(&sql).map_err(|e| e.to_string()))) {
                    Ok(x) => show(x),
                    Err(p) => format!("panic {p}"),
                };
                // the legacy entry point has its own command language for DML: keep its table in step
                // with direct calls and give it the SELECTs only
                let got_l = if sql.starts_with("SELECT") {
                    match guarded(AssertUnwindSafe(|| tl.execute(&legacy_sql).map_err(|e| e.to_string()))) {
                        Ok(x) => show(x),
                        Err(p) => format!("panic {p}"),
                    }
                } else {
                    let _ = direct(&tl);
                    String::new()
                };
                let dump = |q: &QueryRouter| canon(&q.relational().select("t", Condition::True).unwrap_or_default());
                let (da, dl, db) = (dump(&ta), dump(&tl), dump(&tb));
                let is_select = sql.starts_with("SELECT");
                // DELETE through text answers with a preview structure: compare the table only
                let cmp_result = is_select || sql.starts_with("UPDATE") || sql.starts_with("INSERT");
                if (cmp_result && got_a != want) || da != db {
                    hits.push(
                        "text-vs-direct",
                        &format!("execute_parsed({sql:?}) -> {got_a} / table {da:?}; direct call -> {want} / table {db:?}"),
                        json!({"trace": trace.clone()}),
                    );
                    dist.hit("router.differs.execute_parsed");
                    break;
                }
                if (is_select && got_l != want) || dl != db {
                    let up = legacy_sql.to_uppercase();
                    let _ = &up;
                    let in_class = legacy_sql.contains('(');
                    hits.push(
                        if in_class { "legacy-execute-parentheses" } else { "legacy-execute-other" },
                        &format!("QueryRouter::execute({legacy_sql:?}) -> {got_l}; direct call -> {want}"),
                        json!({"trace": trace.clone()}),
                    );
                    dist.hit("router.differs.execute");
                    break;
                }
            }
        }
        total
    }
}

// ------------------------------------------------------------------------------------ main
fn main() {
    let args = Args::parse();
    if let Some(f) = args.extra.get("child") {
        let start = args.extra.get("start").and_then(|s| s.parse().ok()).unwrap_or(0);
        child_main(f, start);
        return;
    }
    if std::env::var("NV_CACHEPROBE").is_ok() {
        let mut q = query_router::QueryRouter::new();
        q.init_cache();
        for sql in [
            "NODE CREATE person {name: 'a'}", "NODE CREATE person {name: 'b'}", "NODE CREATE person {name: 'c'}",
            "EDGE CREATE 1 -> 2 : knows", "NEIGHBORS 1 OUTGOING", "EDGE CREATE 1 -> 3 : knows", "NEIGHBORS 1 OUTGOING",
            "PATH SHORTEST 1 TO 3", "EMBED STORE 'k1' [1.0, 0.0]", "SIMILAR [1.0, 0.0] LIMIT 5", "EMBED STORE 'k2' [0.9, 0.1]", "SIMILAR [1.0, 0.0] LIMIT 5",
        ] {
            println!("{sql} => {:?}", q.execute_parsed(sql).map_err(|e| e.to_string()));
        }
        return;
    }
    quiet_panics();
    let mut rng = Rng::new(args.seed);
    let mut dist = Dist::default();
    let mut hits = Hits::default();

    // ---------------- tree cases
    let mut tree = CaseWriter::new(&args.out, "tree");
    let mut emit_tree = |e: &M, tag: &str, r: &mut Rng, dist: &mut Dist, hits: &mut Hits, plain: bool| {
        let mut ts = vec![];
        body(e, &mut ts);
        let (text, offs) = render(&ts, r, plain);
        for which in 0..2u64 {
            let res = run_impl(which, &text, &offs);
            match &res {
                R::Ok(m, i) if m == e && *i == ts.len() => dist.hit("tree.roundtrip_ok"),
                R::Err(0, _) => dist.hit("tree.too_deep"),
                R::Panic(msg) => {
                    hits.push("panic", &format!("parser {which} panicked on a printed tree: {msg}"), json!({"text": text}));
                    dist.hit("tree.panic")
                }
                _ => dist.hit("tree.other"),
            }
            let term = format!("({which}, {}, {}, {})", e.coq(), list(ts.iter().map(|t| t.coq())), res_coq(&res, &ts));
            let human = format!("{tag} parser={} text={:?} tree={:?} result={:?}", if which == 0 { "expr.rs" } else { "parser.rs" }, text, e, res);
            tree.push(&term, &human, e.depth() >= 3);
        }
        dist.hit(tag);
    };
    // corpus first: the documented examples and the reproduced shapes
    for (e, tag) in boundary_trees() {
        emit_tree(&e, tag, &mut rng, &mut dist, &mut hits, true);
    }
    for (e, tag) in systematic_trees(args.thorough()) {
        emit_tree(&e, tag, &mut rng, &mut dist, &mut hits, true);
    }
    let nrand = args.budget(500, 30000);
    for _ in 0..nrand {
        let d = rng.range(2, 8) as usize;
        let e = gen_tree(&mut rng, d, false, &mut dist);
        dist.hit(&format!("tree.depth.{}", e.depth().min(8)));
        emit_tree(&e, "tree.random", &mut rng, &mut dist, &mut hits, false);
    }
    drop(emit_tree);

    // ---------------- stream cases
    let mut stream = CaseWriter::new(&args.out, "stream");
    let nstream = args.budget(600, 30000);
    for _ in 0..nstream {
        let d = rng.range(1, 5) as usize;
        let e = gen_tree(&mut rng, d, true, &mut dist);
        let mut ts = vec![];
        body(&e, &mut ts);
        mutate(&mut ts, &mut rng, &mut dist);
        let (text, offs) = render(&ts, &mut rng, true);
        for which in 0..2u64 {
            let res = run_impl(which, &text, &offs);
            match &res {
                R::Ok(_, i) if *i == ts.len() => dist.hit("stream.ok_all_consumed"),
                R::Ok(..) => dist.hit("stream.ok_rest"),
                R::Err(k, _) => dist.hit(&format!("stream.err.{k}")),
                R::Panic(msg) => {
                    hits.push("panic", &format!("parser {which} panicked: {msg}"), json!({"text": text}));
                    dist.hit("stream.panic")
                }
                R::Odd(msg) => {
                    if msg.contains("outside") {
                        hits.push("span-outside-input", msg, json!({"text": text}));
                    }
                    dist.hit("stream.odd")
                }
            }
            let term = format!("({which}, {}, {})", list(ts.iter().map(|t| t.coq())), res_coq(&res, &ts));
            let human = format!("parser={} text={:?} result={:?}", if which == 0 { "expr.rs" } else { "parser.rs" }, text, res);
            stream.push(&term, &human, matches!(res, R::Err(..)) || ts.len() >= 4);
        }
    }

    // ---------------- fuzz (child process)
    let mut inputs: Vec<(String, String)> = vec![];
    for n in [100usize, 1000, 5000] {
        inputs.extend(deep_inputs(n));
    }
    inputs.extend(numeric_inputs());
    let ncorpus = inputs.len();
    let nfuzz = args.budget(2500, 150000);
    for i in 0..nfuzz {
        inputs.push((format!("gen{i}"), gen_fuzz_input(&mut rng, &mut dist)));
    }
    let file = args.out.join("fuzz_inputs.hex");
    {
        let mut f = std::fs::File::create(&file).unwrap();
        for (_, s) in &inputs {
            writeln!(f, "{}", hex(s.as_bytes())).unwrap();
        }
    }
    let exe = std::env::current_exe().unwrap();
    let fo = run_fuzz(&exe, &file, inputs.len());
    for (i, class, what) in &fo.hits {
        let (name, s) = &inputs[*i];
        let shown: String = if s.len() > 160 { format!("{}...[{} bytes]", &s.chars().take(120).collect::<String>(), s.len()) } else { s.clone() };
        hits.push(class, &format!("{what}; input {name}: {shown}"), json!({"name": name, "input_hex_file": file.to_string_lossy(), "line": i, "len": s.len()}));
        dist.hit(&format!("fuzz.hit.{class}"));
    }
    let nrouter = router_diff::run(&mut rng, args.budget(60, 2000), &mut dist, &mut hits)
        + router_diff::run_cached(&mut rng, args.budget(120, 4000), &mut dist, &mut hits);
    let router_summary = json!({"kind": "router", "cases": nrouter, "distinct_nontrivial": nrouter, "distinct": nrouter});
    dist.add("fuzz.inputs", inputs.len() as u64);
    dist.add("fuzz.deep_corpus", ncorpus as u64);
    dist.add("fuzz.completed", fo.done as u64);
    let fuzz_summary = json!({"kind": "fuzz", "cases": inputs.len(), "distinct_nontrivial": inputs.len(), "distinct": inputs.len()});

    write_meta(
        &args.out,
        json!({
            "property": "C15", "seed": args.seed, "tier": args.tier,
            "kinds": [tree.summary(), stream.summary(), fuzz_summary, router_summary],
            "distribution": dist.json(),
            "hits": hits.0,
            "nontrivial_rule": "tree: depth >= 3; stream: an error result or >= 4 tokens; fuzz: every input (run in a child process on a 2 MiB stack)",
        }),
    );
}
