use std::sync::{Arc, Barrier};
use tensor_chain::{Block, ChainConfig, TensorChain, Transaction, ValidatorSignature};
use tensor_chain::signing::Identity;
use tensor_store::{TensorStore, TensorData, TensorValue, ScalarValue};

fn mk(seed: u8) -> TensorChain {
    let store = TensorStore::new();
    let id = Identity::from_bytes(&[seed; 32]).unwrap();
    let mut cfg = ChainConfig::new("x");
    cfg.auto_merge.enabled = false;
    let c = TensorChain::with_identity(store, cfg, id);
    c.initialize().unwrap();
    c
}
fn put(c: &TensorChain, k: &str, v: &[u8]) -> Result<[u8;32], String> {
    let ws = c.begin().unwrap();
    ws.add_operation(Transaction::Put { key: k.into(), data: v.to_vec() }).unwrap();
    c.commit(&ws).map_err(|e| e.to_string())
}
fn read_block(c: &TensorChain, h: u64) -> Block { c.get_block(h).unwrap().unwrap() }
fn write_block(c: &TensorChain, h: u64, b: &Block) {
    let key = format!("chain:block:{h}");
    let mut d = c.store().get(&key).unwrap();
    d.set("_block", TensorValue::Scalar(ScalarValue::Bytes(bitcode::serialize(b).unwrap())));
    c.store().put(&key, d).unwrap();
}
fn main() {
    let c = mk(7);
    println!("node_id={} len={}", c.node_id(), c.node_id().len());
    for i in 0..3 { put(&c, &format!("k{i}"), &[i as u8]).unwrap(); }
    println!("verify after 3: {:?}", c.verify());
    let b2 = read_block(&c, 2);
    println!("pre len {} emb bytes {:?}", b2.header.signing_bytes().len(), bitcode::serialize(&b2.header.delta_embedding).unwrap());
    println!("tx ser {:?}", bitcode::serialize(&b2.transactions[0]).unwrap());
    // F-C16-sigs
    let mut m = b2.clone();
    m.signatures.push(ValidatorSignature { validator: "evil".into(), signature: vec![1,2,3], block_hash: [9;32] });
    write_block(&c, 2, &m);
    println!("sigs mutated: {:?}", c.verify());
    let mut m = b2.clone(); m.header.timestamp += 1; write_block(&c, 2, &m);
    println!("ts+1 mutated: {:?}", c.verify().map_err(|e| e.to_string()));
    write_block(&c, 2, &b2);
    // genesis tx mutation
    let g = read_block(&c, 0);
    let mut m = g.clone(); m.transactions.push(Transaction::Put{key:"evil".into(), data: vec![1]}); write_block(&c, 0, &m);
    println!("genesis txs mutated: {:?}", c.verify().map_err(|e| e.to_string()));
    let mut m = g.clone(); m.header.signature = vec![1]; write_block(&c, 0, &m);
    println!("genesis sig mutated: {:?}", c.verify().map_err(|e| e.to_string()));
    write_block(&c, 0, &g);
    // merkle dup
    let ws = c.begin().unwrap();
    for i in 0..3 { ws.add_operation(Transaction::Put { key: format!("m{i}"), data: vec![i] }).unwrap(); }
    c.commit(&ws).unwrap();
    let b4 = read_block(&c, 4);
    let mut m = b4.clone(); let last = m.transactions[2].clone(); m.transactions.push(last); write_block(&c, 4, &m);
    println!("merkle dup-tail: {:?}", c.verify().map_err(|e| e.to_string()));
    write_block(&c, 4, &b4);
    // rollback of an older workspace after another commit
    let c2 = mk(8);
    let w1 = c2.begin().unwrap();
    w1.add_operation(Transaction::Put { key: "a".into(), data: vec![1] }).unwrap();
    put(&c2, "b", &[2]).unwrap();
    println!("before rollback: height {} verify {:?} b={}", c2.height(), c2.verify().map_err(|e| e.to_string()), c2.store().exists("b"));
    println!("rollback: {:?}", c2.rollback(&w1).map_err(|e| e.to_string()));
    println!("after rollback: height {} verify {:?} b={}", c2.height(), c2.verify().map_err(|e| e.to_string()), c2.store().exists("b"));
    // unsigned block at height 1 via append_block
    let c3 = mk(9);
    let blk = c3.new_block().add_transaction(Transaction::Put{key:"z".into(), data: vec![1]}).build();
    println!("append unsigned h1: {:?}", c3.append_block(blk).map_err(|e| e.to_string()));
    println!("verify: {:?}", c3.verify().map_err(|e| e.to_string()));
    // ts regress
    let c4 = mk(10);
    put(&c4, "k", &[1]).unwrap();
    let id = Identity::from_bytes(&[10; 32]).unwrap();
    let mut blk = c4.new_block().add_transaction(Transaction::Put{key:"z".into(), data: vec![1]}).build();
    blk.header.timestamp = 5;
    blk.header.signature = id.sign(&blk.header.signing_bytes());
    println!("append ts-regress: {:?}", c4.append_block(blk).map_err(|e| e.to_string()));
    println!("verify: {:?}", c4.verify().map_err(|e| e.to_string()));
    // race
    let mut bad = 0;
    for run in 0..10 {
        let c = Arc::new(mk(20 + run));
        let bar = Arc::new(Barrier::new(2));
        let hs: Vec<_> = (0..2).map(|t| { let c = c.clone(); let bar = bar.clone(); std::thread::spawn(move || {
            let ws = c.begin().unwrap();
            ws.add_operation(Transaction::Put { key: format!("key{t}"), data: vec![t as u8] }).unwrap();
            bar.wait();
            c.commit(&ws).is_ok()
        })}).collect();
        let rs: Vec<bool> = hs.into_iter().map(|h| h.join().unwrap()).collect();
        let v = c.verify().is_ok();
        let present: Vec<bool> = (0..2).map(|t| c.store().exists(&format!("key{t}"))).collect();
        if !v || rs.iter().zip(&present).any(|(r,p)| *r && !*p) { bad += 1; }
        if run < 3 { println!("race run {run}: rs={rs:?} present={present:?} verify={v} height={}", c.height()); }
    }
    println!("race bad {bad}/10");
}
