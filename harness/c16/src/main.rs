//! C16 correspondence harness: drives the real `TensorChain` / `Chain` / `TensorStateMachine`.
//! Case kinds (Gallina terms for NV.C16.Run):
//!   seq    : begin/put/delete/commit/rollback/append_block histories   -> check_seq1
//!   tamper : a chain + [(mutation of a stored block, verify() code)]   -> check_tamper1
//!   conc   : 2-4 concurrent commits (commit hook / barrier)            -> check_conc1
//!   replay : the same blocks applied on two replicas                   -> check_replay1
//!   layout : header fields + signing_bytes()                           -> check_layout
use nvh_common::*;
use std::collections::HashMap;
use std::sync::atomic::{AtomicUsize, Ordering};
use std::sync::mpsc;
use std::sync::{Arc, Barrier, Condvar, Mutex};
use std::time::Duration;
use tensor_chain::signing::{Identity, ValidatorRegistry};
use tensor_chain::{
    Block, BlockHeader, Chain, ChainConfig, ChainError, TensorChain, TensorStateMachine, Transaction,
    TransactionWorkspace, ValidatorSignature,
};
use tensor_store::{ScalarValue, SparseVector, TensorStore, TensorValue};

// ------------------------------------------------------------------------------------ model-side types
#[derive(Clone, Debug, PartialEq, Eq)]
enum Tx {
    Put(u64, Vec<u8>),
    Del(u64),
    /// every other transaction kind: (kind, a, b)
    Other(u64, u64, u64),
}
impl Tx {
    fn coq(&self) -> String {
        match self {
            Tx::Put(k, v) => format!("TPut {k} {}", bytes(v)),
            Tx::Del(k) => format!("TDel {k}"),
            Tx::Other(x, a, b) => format!("TOther {x} {a} {b}"),
        }
    }
    fn real(&self) -> Transaction {
        match self {
            Tx::Put(k, v) => Transaction::Put { key: format!("key{k}"), data: v.clone() },
            Tx::Del(k) => Transaction::Delete { key: format!("key{k}") },
            Tx::Other(x, a, b) => match x {
                0 => Transaction::Embed { key: format!("e{a}"), vector: vec![*b as f32, 1.0] },
                1 => Transaction::NodeCreate { key: format!("n{a}"), label: format!("L{b}") },
                2 => Transaction::NodeDelete { key: format!("n{a}") },
                3 => Transaction::EdgeCreate { from: format!("n{a}"), to: format!("n{b}"), edge_type: "T".into() },
                4 => Transaction::TableInsert { table: format!("t{a}"), values: vec![*b as u8] },
                5 => Transaction::TableUpdate { table: format!("t{a}"), row_id: *b, values: vec![*b as u8, 1] },
                6 => Transaction::TableDelete { table: format!("t{a}"), row_id: *b },
                _ => Transaction::CompareAndSwap { key: format!("cas{a}"), expected_data: vec![], new_data: vec![*b as u8] },
            },
        }
    }
    fn of(t: &Transaction) -> Option<Tx> {
        let kk = |s: &str| s.strip_prefix("key").and_then(|x| x.parse::<u64>().ok());
        match t {
            Transaction::Put { key, data } => kk(key).map(|k| Tx::Put(k, data.clone())),
            Transaction::Delete { key } => kk(key).map(Tx::Del),
            _ => None,
        }
    }
}
fn txs_coq(l: &[Tx]) -> String {
    list(l.iter().map(|t| t.coq()))
}

fn err_code(e: &ChainError) -> u64 {
    let s = e.to_string();
    match e {
        ChainError::ValidationFailed(m) => {
            if m.starts_with("expected height") || m.contains("does not follow") {
                1
            } else if m.contains("tx_root does not match") {
                3
            } else if m.contains("timestamp before previous") {
                4
            } else if m.contains("missing block signature") {
                5
            } else if m.contains("unknown proposer") {
                6
            } else if m.contains("invalid block signature") {
                7
            } else if m.contains("must be signed by proposer") {
                11
            } else if m.contains("state_root does not match") {
                12
            } else {
                90
            }
        }
        ChainError::InvalidHash { .. } => 2,
        ChainError::ConflictDetected { .. } => 24,
        ChainError::BlockNotFound(_) => 8,
        ChainError::EmptyChain => 9,
        ChainError::TransactionFailed(m) => {
            if m.contains("not active") {
                20
            } else if m.contains("cannot commit transaction in state") {
                21
            } else if m.contains("max_txs_per_block") {
                22
            } else if m.contains("cannot rollback committed") {
                23
            } else {
                91
            }
        }
        _ => {
            let _ = s;
            92
        }
    }
}
fn code<T>(r: &Result<T, ChainError>) -> u64 {
    match r {
        Ok(_) => 0,
        Err(e) => err_code(e),
    }
}

// ------------------------------------------------------------------------------------ real chain context
struct Ctx {
    chain: Arc<TensorChain>,
    me: Identity,
    v2: Identity,
    unk: Identity,
    extra: u64,
    maxtx: u64,
}
fn ident(b: u8) -> Identity {
    let mut k = [b; 32];
    k[0] = 0x42;
    Identity::from_bytes(&k).unwrap()
}
fn mk(seed: u8, maxtx: u64, extra: u64, auto_merge: bool) -> Ctx {
    let store = TensorStore::new();
    let me = ident(seed);
    let v2 = ident(seed.wrapping_add(101));
    let unk = ident(seed.wrapping_add(202));
    let mut cfg = ChainConfig::new("x").with_max_txs(maxtx as usize);
    cfg.auto_merge.enabled = auto_merge;
    let chain = TensorChain::with_identity(store, cfg, ident(seed));
    if extra >= 1 {
        chain.register_validator(&v2);
    }
    chain.initialize().unwrap();
    Ctx { chain: Arc::new(chain), me, v2, unk, extra, maxtx }
}
/// auto-merge on and a NON-EMPTY global codebook (one centroid (1,0)): merge candidates go through the transition
/// validator, which refuses e.g. the merged delta (1,0)+(0,1)
fn mk_codebook(seed: u8, maxtx: u64) -> Ctx {
    use tensor_chain::{AutoMergeConfig, CodebookConfig, GlobalCodebook, ValidationConfig};
    let auto = AutoMergeConfig::default().with_threshold(0.2).with_window(10_000);
    let cfg = ChainConfig::new("x").with_max_txs(maxtx as usize).with_auto_merge_config(auto);
    let chain = TensorChain::with_codebook(
        TensorStore::new(),
        cfg,
        GlobalCodebook::from_centroids(vec![vec![1.0, 0.0]]),
        CodebookConfig::default(),
        ValidationConfig::default(),
    );
    chain.initialize().unwrap();
    Ctx { chain: Arc::new(chain), me: ident(seed), v2: ident(seed.wrapping_add(101)), unk: ident(seed.wrapping_add(202)), extra: 0, maxtx }
}
impl Ctx {
    fn ver(&self) -> u64 {
        code(&self.chain.verify())
    }
    fn dump(&self, kk: u64) -> Vec<Option<Vec<u8>>> {
        (0..kk)
            .map(|k| match self.chain.store().get(&format!("key{k}")) {
                Ok(d) => match d.get("data") {
                    Some(TensorValue::Scalar(ScalarValue::Bytes(b))) => Some(b.clone()),
                    _ => Some(vec![255, 255]),
                },
                Err(_) => None,
            })
            .collect()
    }
    fn block(&self, h: u64) -> Option<Block> {
        self.chain.get_block(h).ok().flatten()
    }
    fn tip_txs(&self) -> Vec<Tx> {
        self.block(self.chain.height()).map(|b| b.transactions.iter().filter_map(Tx::of).collect()).unwrap_or_default()
    }
    fn gts(&self) -> u64 {
        self.block(0).map(|b| b.header.timestamp).unwrap_or(0)
    }
    fn write_block(&self, h: u64, b: &Block) {
        let key = format!("chain:block:{h}");
        let mut d = self.chain.store().get(&key).unwrap_or_default();
        d.set("_block", TensorValue::Scalar(ScalarValue::Bytes(bitcode::serialize(b).unwrap())));
        self.chain.store().put(&key, d).unwrap();
    }
}
fn dump_coq(d: &[Option<Vec<u8>>]) -> String {
    list(d.iter().map(|o| opt(o.as_ref().map(|v| bytes(v)))))
}

// ------------------------------------------------------------------------------------ seq
#[derive(Clone, Debug)]
struct Raw {
    height: u64,
    prev: u64,
    txroot: u64,
    txs: Vec<Tx>,
    sig: u64,
    ts: u64,
}
impl Raw {
    fn coq(&self) -> String {
        format!("(RD {} {} {} {} {} {})", self.height, self.prev, self.txroot, txs_coq(&self.txs), self.sig, self.ts)
    }
    fn good(ts: u64, txs: Vec<Tx>) -> Raw {
        Raw { height: 0, prev: 0, txroot: 0, txs, sig: 0, ts }
    }
}
fn build_raw(c: &Ctx, d: &Raw, state_root: [u8; 32]) -> Block {
    let h = c.chain.height();
    let hgt = match d.height {
        0 => h + 1,
        1 => h + 2,
        _ => h,
    };
    let prev = match d.prev {
        0 => c.chain.tip_hash(),
        1 => [0u8; 32],
        _ => [0xAB; 32],
    };
    let txs: Vec<Transaction> = d.txs.iter().map(|t| t.real()).collect();
    let who = match d.sig {
        3 => &c.unk,
        4 => &c.v2,
        _ => &c.me,
    };
    let mut hdr = BlockHeader::new(hgt, prev, [0u8; 32], state_root, who.node_id());
    hdr.delta_embedding = SparseVector::new(128);
    hdr.timestamp = d.ts;
    let mut b = Block::new(hdr, txs);
    b.header.tx_root = match d.txroot {
        0 => b.compute_tx_root(),
        1 => [0u8; 32],
        _ => [0xCD; 32],
    };
    b.header.signature = match d.sig {
        1 => vec![],
        2 => vec![0xAA; 64],
        _ => who.sign(&b.header.signing_bytes()),
    };
    b
}

#[derive(Clone, Debug)]
enum Op {
    Begin(u64),
    Put(u64, u64, Vec<u8>),
    Del(u64, u64),
    Commit(u64, u64),
    CommitU(u64, u64),
    Rollback(u64),
    Raw(Raw),
}
impl Op {
    fn coq(&self) -> String {
        match self {
            Op::Begin(w) => format!("OBegin {w}"),
            Op::Put(w, k, v) => format!("OPut {w} {k} {}", bytes(v)),
            Op::Del(w, k) => format!("ODel {w} {k}"),
            Op::Commit(w, ts) => format!("OCommit {w} {ts}"),
            Op::CommitU(w, ts) => format!("OCommitU {w} {ts}"),
            Op::Rollback(w) => format!("ORollback {w}"),
            Op::Raw(d) => format!("ORaw {}", d.coq()),
        }
    }
}
struct Obs {
    res: u64,
    height: u64,
    ver: u64,
    dump: Vec<Option<Vec<u8>>>,
    tip: Vec<Tx>,
}
impl Obs {
    fn coq(&self) -> String {
        format!("({}, {}, {}, {}, {})", self.res, self.height, self.ver, dump_coq(&self.dump), txs_coq(&self.tip))
    }
}

/// A scripted or random history; returns (ops as executed, observations). Stops after the first op whose
/// verify() fails (everything after a broken chain is outside the model).
struct SeqRun {
    ops: Vec<Op>,
    obs: Vec<Obs>,
}
enum Plan {
    Begin,
    Put(usize, u64, Vec<u8>),
    Del(usize, u64),
    Commit(usize),
    CommitU(usize),
    Rollback(usize),
    Raw(Raw, i64), // ts = tip ts + delta
}
fn run_plan(c: &Ctx, kk: u64, plan: Vec<Plan>) -> SeqRun {
    let mut wss: Vec<Arc<TransactionWorkspace>> = vec![];
    let mut ops = vec![];
    let mut obs = vec![];
    for p in plan {
        let (op, res) = match p {
            Plan::Begin => {
                let w = c.chain.begin().unwrap();
                wss.push(w);
                (Op::Begin(wss.len() as u64 - 1), 0)
            }
            Plan::Put(w, k, v) => {
                if w >= wss.len() {
                    continue;
                }
                let r = wss[w].add_operation(Tx::Put(k, v.clone()).real());
                (Op::Put(w as u64, k, v), code(&r))
            }
            Plan::Del(w, k) => {
                if w >= wss.len() {
                    continue;
                }
                let r = wss[w].add_operation(Tx::Del(k).real());
                (Op::Del(w as u64, k), code(&r))
            }
            Plan::Commit(w) => {
                if w >= wss.len() {
                    continue;
                }
                let h0 = c.chain.height();
                let r = c.chain.commit(&wss[w]);
                let ts = if r.is_ok() && c.chain.height() > h0 {
                    c.block(c.chain.height()).map(|b| b.header.timestamp).unwrap_or(0)
                } else {
                    0
                };
                (Op::Commit(w as u64, ts), code(&r))
            }
            Plan::CommitU(w) => {
                if w >= wss.len() {
                    continue;
                }
                // the proposer key leaves the registry for the duration of this one call: above height 1 the
                // append then fails ("unknown proposer") AFTER the operations were applied to the store
                let h0 = c.chain.height();
                let _ = c.chain.validator_registry().remove(&c.me.node_id());
                let r = c.chain.commit(&wss[w]);
                c.chain.register_validator(&c.me);
                let ts = if r.is_ok() && c.chain.height() > h0 {
                    c.block(c.chain.height()).map(|b| b.header.timestamp).unwrap_or(0)
                } else {
                    0
                };
                (Op::CommitU(w as u64, ts), code(&r))
            }
            Plan::Rollback(w) => {
                if w >= wss.len() {
                    continue;
                }
                let r = c.chain.rollback(&wss[w]);
                (Op::Rollback(w as u64), code(&r))
            }
            Plan::Raw(mut d, delta) => {
                let tip_ts = c.block(c.chain.height()).map(|b| b.header.timestamp).unwrap_or(1_000_000);
                d.ts = (tip_ts as i64 + delta).max(0) as u64;
                let b = build_raw(c, &d, [0xEE; 32]);
                let r = c.chain.append_block(b);
                (Op::Raw(d), code(&r))
            }
        };
        let o = Obs { res, height: c.chain.height(), ver: c.ver(), dump: c.dump(kk), tip: c.tip_txs() };
        let broken = o.ver != 0;
        ops.push(op);
        obs.push(o);
        if broken {
            break;
        }
    }
    SeqRun { ops, obs }
}
fn seq_term(c: &Ctx, kk: u64, gts: u64, r: &SeqRun) -> String {
    format!(
        "({}, ({}, {}, {}, {}, {}))",
        c.extra,
        kk,
        c.maxtx,
        gts,
        list(r.ops.iter().map(|o| o.coq())),
        list(r.obs.iter().map(|o| o.coq()))
    )
}
fn gen_val(r: &mut Rng, uniq: &mut u8) -> Vec<u8> {
    *uniq = uniq.wrapping_add(1);
    let n = r.below(3) as usize;
    let mut v = vec![*uniq];
    for _ in 0..n {
        v.push(r.below(256) as u8);
    }
    v
}
fn gen_txs(r: &mut Rng, kk: u64, n: usize, uniq: &mut u8) -> Vec<Tx> {
    (0..n).map(|_| if r.chance(4, 5) { Tx::Put(r.below(kk), gen_val(r, uniq)) } else { Tx::Del(r.below(kk)) }).collect()
}
/// like gen_txs, but a non-empty list always holds a Put with a value no other list of the case has
fn gen_txs_unique(r: &mut Rng, kk: u64, n: usize, uniq: &mut u8) -> Vec<Tx> {
    let mut l = gen_txs(r, kk, n, uniq);
    if !l.is_empty() && !l.iter().any(|t| matches!(t, Tx::Put(..))) {
        l[0] = Tx::Put(r.below(kk), gen_val(r, uniq));
    }
    l
}
fn gen_plan(r: &mut Rng, kk: u64, len: usize, dist: &mut Dist, allow_raw: bool, allow_rollback: bool) -> Vec<Plan> {
    let mut plan = vec![Plan::Begin];
    let mut nws = 1usize;
    let mut uniq = 0u8;
    for _ in 0..len {
        let k = r.below(100);
        let w = r.below(nws as u64) as usize;
        let p = if k < 12 && nws < 4 {
            nws += 1;
            dist.hit("seq.begin");
            Plan::Begin
        } else if k < 50 {
            dist.hit("seq.put");
            Plan::Put(w, r.below(kk), gen_val(r, &mut uniq))
        } else if k < 58 {
            dist.hit("seq.delete");
            Plan::Del(w, r.below(kk))
        } else if k < 76 {
            dist.hit("seq.commit");
            Plan::Commit(w)
        } else if k < 82 {
            dist.hit("seq.commit_unregistered");
            Plan::CommitU(w)
        } else if k < 90 && allow_rollback {
            dist.hit("seq.rollback");
            Plan::Rollback(w)
        } else if allow_raw {
            // mostly valid raw blocks, each defect with some probability
            let ntx = r.below(3) as usize;
            let mut d = Raw::good(0, gen_txs(r, kk, ntx, &mut uniq));
            let mut delta = r.below(3) as i64;
            match r.below(10) {
                0 => d.height = r.range(1, 2),
                1 => d.prev = r.range(1, 2),
                2 => d.txroot = r.range(1, 2),
                3 => d.sig = r.range(1, 4),
                4 => delta = -(r.range(1, 5) as i64),
                5 => d.sig = 4,
                _ => {}
            }
            dist.hit(&format!("seq.raw.h{}p{}r{}s{}{}", d.height, d.prev, d.txroot, d.sig, if delta < 0 { ".ts-" } else { "" }));
            Plan::Raw(d, delta)
        } else {
            dist.hit("seq.commit");
            Plan::Commit(w)
        };
        plan.push(p);
    }
    plan
}

// ------------------------------------------------------------------------------------ tamper
#[derive(Clone, Debug)]
enum Mut {
    Height(u64, u64),
    Prev(u64),
    TxRoot(u64),
    SRoot(u64),
    Emb(u64),
    Codes(u64, Vec<u16>),
    Ts(u64, u64),
    Proposer(u64, u64),
    Sig(u64, u64),
    Txs(u64, Vec<Tx>),
    VSigs(u64),
    Remove(u64),
    Swap(u64, u64),
    Copy(u64, u64),
    Forge(u64, Vec<Tx>, u64),
}
impl Mut {
    fn coq(&self) -> String {
        match self {
            Mut::Height(i, v) => format!("MHeight {i} {v}"),
            Mut::Prev(i) => format!("MPrev {i}"),
            Mut::TxRoot(i) => format!("MTxRoot {i}"),
            Mut::SRoot(i) => format!("MSRoot {i}"),
            Mut::Emb(i) => format!("MEmb {i}"),
            Mut::Codes(i, cs) => format!("MCodes {i} {}", list(cs.iter().map(|x| n(*x as u64)))),
            Mut::Ts(i, v) => format!("MTs {i} {v}"),
            Mut::Proposer(i, p) => format!("MProposer {i} {p}"),
            Mut::Sig(i, k) => format!("MSig {i} {k}"),
            Mut::Txs(i, l) => format!("MTxs {i} {}", txs_coq(l)),
            Mut::VSigs(i) => format!("MVSigs {i}"),
            Mut::Remove(i) => format!("MRemove {i}"),
            Mut::Swap(i, j) => format!("MSwap {i} {j}"),
            Mut::Copy(i, j) => format!("MCopy {i} {j}"),
            Mut::Forge(i, l, k) => format!("MForge {i} {} {k}", txs_coq(l)),
        }
    }
    fn kind(&self) -> &'static str {
        match self {
            Mut::Height(..) => "height",
            Mut::Prev(..) => "prev_hash",
            Mut::TxRoot(..) => "tx_root",
            Mut::SRoot(..) => "state_root",
            Mut::Emb(..) => "delta_embedding",
            Mut::Codes(..) => "quantized_codes",
            Mut::Ts(..) => "timestamp",
            Mut::Proposer(..) => "proposer",
            Mut::Sig(..) => "signature",
            Mut::Txs(..) => "transactions",
            Mut::VSigs(..) => "signatures",
            Mut::Remove(..) => "remove",
            Mut::Swap(..) => "swap",
            Mut::Copy(..) => "copy",
            Mut::Forge(..) => "forge",
        }
    }
}
fn flip(a: &mut [u8; 32]) {
    a[0] ^= 0xFF;
}
/// apply the mutation to the stored records, run verify(), put the records back
fn try_mut(c: &Ctx, m: &Mut) -> u64 {
    let h = c.chain.height();
    let saved: Vec<(u64, Option<tensor_store::TensorData>)> =
        (0..=h).map(|i| (i, c.chain.store().get(&format!("chain:block:{i}")).ok())).collect();
    let blk = |i: u64| c.block(i).expect("stored block");
    let upd = |i: u64, f: &dyn Fn(&mut Block)| {
        let mut b = blk(i);
        f(&mut b);
        c.write_block(i, &b);
    };
    match m {
        Mut::Height(i, v) => upd(*i, &|b| b.header.height = *v),
        Mut::Prev(i) => upd(*i, &|b| flip(&mut b.header.prev_hash)),
        Mut::TxRoot(i) => upd(*i, &|b| flip(&mut b.header.tx_root)),
        Mut::SRoot(i) => upd(*i, &|b| flip(&mut b.header.state_root)),
        Mut::Emb(i) => upd(*i, &|b| b.header.delta_embedding = SparseVector::from_dense(&[1.0, 0.0, 2.0])),
        Mut::Codes(i, cs) => upd(*i, &|b| b.header.quantized_codes = cs.clone()),
        Mut::Ts(i, v) => upd(*i, &|b| b.header.timestamp = *v),
        Mut::Proposer(i, p) => upd(*i, &|b| b.header.proposer = if *p == 2 { c.v2.node_id() } else { c.unk.node_id() }),
        Mut::Sig(i, k) => upd(*i, &|b| {
            if *k == 0 {
                b.header.signature.clear()
            } else if b.header.signature.is_empty() {
                b.header.signature = vec![1]
            } else {
                b.header.signature[0] ^= 0xFF
            }
        }),
        Mut::Txs(i, l) => upd(*i, &|b| b.transactions = l.iter().map(|t| t.real()).collect()),
        Mut::VSigs(i) => upd(*i, &|b| {
            b.signatures.push(ValidatorSignature { validator: "evil".into(), signature: vec![1, 2, 3], block_hash: [9; 32] })
        }),
        Mut::Remove(i) => {
            c.chain.store().delete(&format!("chain:block:{i}")).unwrap();
        }
        Mut::Swap(i, j) => {
            let (bi, bj) = (blk(*i), blk(*j));
            c.write_block(*i, &bj);
            c.write_block(*j, &bi);
        }
        Mut::Copy(i, j) => {
            let bj = blk(*j);
            c.write_block(*i, &bj);
        }
        Mut::Forge(i, l, k) => upd(*i, &|b| {
            let who = match k {
                1 => &c.unk,
                2 => &c.v2,
                _ => &c.me,
            };
            b.transactions = l.iter().map(|t| t.real()).collect();
            b.signatures.clear();
            b.header.proposer = who.node_id();
            b.header.tx_root = b.compute_tx_root();
            b.header.signature = if *k == 0 { vec![0xAA; 64] } else { who.sign(&b.header.signing_bytes()) };
        }),
    }
    let v = c.ver();
    for (i, d) in saved {
        let key = format!("chain:block:{i}");
        match d {
            Some(d) => c.chain.store().put(&key, d).unwrap(),
            None => {
                let _ = c.chain.store().delete(&key);
            }
        }
    }
    v
}
fn all_muts(c: &Ctx, r: &mut Rng) -> Vec<Mut> {
    let n = c.chain.height();
    let mut out = vec![];
    let mut uniq = 200u8;
    for i in 0..=n {
        let b = c.block(i).unwrap();
        let txs: Vec<Tx> = b.transactions.iter().filter_map(Tx::of).collect();
        out.push(Mut::Height(i, i + 1));
        if i > 0 {
            out.push(Mut::Height(i, i - 1));
        }
        out.push(Mut::Height(i, r.range(n + 2, 1 << 40)));
        out.push(Mut::Prev(i));
        out.push(Mut::TxRoot(i));
        out.push(Mut::SRoot(i));
        out.push(Mut::Emb(i));
        out.push(Mut::Codes(i, vec![7]));
        out.push(Mut::Codes(i, vec![r.below(65536) as u16, r.below(65536) as u16]));
        out.push(Mut::Ts(i, b.header.timestamp + 1));
        out.push(Mut::Ts(i, b.header.timestamp.saturating_sub(1)));
        out.push(Mut::Ts(i, b.header.timestamp + r.range(2, 1 << 30)));
        out.push(Mut::Proposer(i, 9));
        out.push(Mut::Proposer(i, 2));
        if !b.header.signature.is_empty() {
            out.push(Mut::Sig(i, 0));
        }
        out.push(Mut::Sig(i, 1));
        // transaction list: replace one, drop last, add one, duplicate last, swap two
        if !txs.is_empty() {
            let mut l = txs.clone();
            let j = r.below(l.len() as u64) as usize;
            l[j] = Tx::Put(77, gen_val(r, &mut uniq));
            out.push(Mut::Txs(i, l));
            let mut l = txs.clone();
            l.pop();
            out.push(Mut::Txs(i, l));
            let mut l = txs.clone();
            l.push(txs[txs.len() - 1].clone());
            out.push(Mut::Txs(i, l));
            if txs.len() >= 2 && txs[0] != txs[1] {
                let mut l = txs.clone();
                l.swap(0, 1);
                out.push(Mut::Txs(i, l));
            }
            if txs.len() == 6 {
                let mut l = txs.clone();
                l.push(txs[4].clone());
                l.push(txs[5].clone());
                out.push(Mut::Txs(i, l));
            }
        }
        let mut l = txs.clone();
        l.push(Tx::Put(78, gen_val(r, &mut uniq)));
        out.push(Mut::Txs(i, l));
        out.push(Mut::VSigs(i));
        out.push(Mut::Remove(i));
        for j in 0..=n {
            if j > i {
                out.push(Mut::Swap(i, j));
            }
            if j != i {
                out.push(Mut::Copy(i, j));
            }
        }
        if i >= 1 {
            let l = vec![Tx::Put(79, gen_val(r, &mut uniq))];
            out.push(Mut::Forge(i, l.clone(), 0));
            out.push(Mut::Forge(i, l.clone(), 1));
            if i < n || c.extra == 0 {
                out.push(Mut::Forge(i, l, 2));
            }
            out.push(Mut::Forge(i, txs.clone(), 1));
        }
    }
    out
}

// ------------------------------------------------------------------------------------ conc
struct HookCtl {
    at: Mutex<Vec<usize>>, // threads currently parked at the hook, in arrival order
    released: Mutex<Vec<bool>>,
    cv: Condvar,
    arrivals: mpsc::Sender<usize>,
    auto: Mutex<bool>, // release everything immediately
}
thread_local! { static TID: std::cell::Cell<usize> = const { std::cell::Cell::new(usize::MAX) }; }

fn conc_run(c: &Ctx, wss: &[Vec<Tx>], order: &[usize], use_hook: bool, dist: &mut Dist) -> (Vec<u64>, bool) {
    // workspaces are begun and filled sequentially; only the commits run concurrently
    let works: Vec<Arc<TransactionWorkspace>> = wss
        .iter()
        .map(|l| {
            let w = c.chain.begin().unwrap();
            for t in l {
                w.add_operation(t.real()).unwrap();
            }
            w
        })
        .collect();
    let nthr = wss.len();
    let results: Arc<Mutex<Vec<u64>>> = Arc::new(Mutex::new(vec![99; nthr]));
    let mut raced = false;
    if use_hook {
        let (txa, rxa) = mpsc::channel::<usize>();
        let ctl = Arc::new(HookCtl {
            at: Mutex::new(vec![]),
            released: Mutex::new(vec![false; nthr]),
            cv: Condvar::new(),
            arrivals: txa,
            auto: Mutex::new(false),
        });
        let hc = ctl.clone();
        tensor_store::verif_hook::set(Some(Arc::new(move |name: &str| {
            if name != "chain.commit.before_append" {
                return;
            }
            let me = TID.with(|t| t.get());
            if me == usize::MAX {
                return;
            }
            hc.at.lock().unwrap().push(me);
            let _ = hc.arrivals.send(me);
            let mut rel = hc.released.lock().unwrap();
            while !rel[me] && !*hc.auto.lock().unwrap() {
                let (g, _) = hc.cv.wait_timeout(rel, Duration::from_millis(20)).unwrap();
                rel = g;
            }
        })));
        let spawn = |i: usize| {
            let ch = c.chain.clone();
            let w = works[i].clone();
            let res = results.clone();
            std::thread::spawn(move || {
                TID.with(|t| t.set(i));
                let r = ch.commit(&w);
                res.lock().unwrap()[i] = code(&r);
            })
        };
        // the first thread of the schedule goes first and parks at the hook (if it gets that far)
        let mut handles = vec![];
        let first = order[0];
        handles.push(spawn(first));
        let first_parked = rxa.recv_timeout(Duration::from_millis(400)).is_ok();
        for &i in &order[1..] {
            handles.push(spawn(i));
        }
        // who else reaches the hook while `first` is parked? (nobody, when commit is serialised)
        let mut parked = if first_parked { vec![first] } else { vec![] };
        let deadline = std::time::Instant::now() + Duration::from_millis(if first_parked { 120 } else { 10 });
        while parked.len() < nthr {
            let left = deadline.saturating_duration_since(std::time::Instant::now());
            match rxa.recv_timeout(left) {
                Ok(i) => parked.push(i),
                Err(_) => break,
            }
        }
        if parked.len() > 1 {
            raced = true;
            dist.hit("conc.several_threads_inside_commit");
        }
        // release the parked ones in REVERSE arrival order (the late-comer appends first), then everybody
        for &i in parked.iter().rev() {
            ctl.released.lock().unwrap()[i] = true;
            ctl.cv.notify_all();
            std::thread::sleep(Duration::from_millis(if raced { 30 } else { 0 }));
        }
        *ctl.auto.lock().unwrap() = true;
        ctl.cv.notify_all();
        for h in handles {
            let _ = h.join();
        }
        tensor_store::verif_hook::set(None);
    } else {
        let bar = Arc::new(Barrier::new(nthr));
        let handles: Vec<_> = (0..nthr)
            .map(|i| {
                let ch = c.chain.clone();
                let w = works[i].clone();
                let res = results.clone();
                let bar = bar.clone();
                std::thread::spawn(move || {
                    bar.wait();
                    let r = ch.commit(&w);
                    res.lock().unwrap()[i] = code(&r);
                })
            })
            .collect();
        for h in handles {
            let _ = h.join();
        }
    }
    let r = results.lock().unwrap().clone();
    (r, raced)
}

// ------------------------------------------------------------------------------------ replay
struct Replica {
    sm: TensorStateMachine,
    store: TensorStore,
}
fn mk_replica(image: &[u8], leader: &Identity, shared: bool) -> Replica {
    use tensor_chain::{MemoryTransport, RaftConfig, RaftNode};
    let cstore = TensorStore::new();
    cstore.restore_from_bytes(image).unwrap();
    let graph = Arc::new(graph_engine::GraphEngine::with_store(cstore.clone()));
    let reg = Arc::new(ValidatorRegistry::new());
    reg.register(leader);
    let chain = Arc::new(Chain::with_registry(graph, "replica".to_string(), reg));
    chain.initialize().unwrap();
    let transport = Arc::new(MemoryTransport::new("replica".to_string()));
    let raft = Arc::new(RaftNode::new("replica".to_string(), vec![], transport, RaftConfig::default()));
    let store = if shared { cstore } else { TensorStore::new() };
    Replica { sm: TensorStateMachine::new(chain, raft, store.clone()), store }
}
fn rdump(s: &TensorStore, kk: u64) -> Vec<Option<Vec<u8>>> {
    (0..kk)
        .map(|k| match s.get(&format!("key{k}")) {
            Ok(d) => match d.get("data") {
                Some(TensorValue::Scalar(ScalarValue::Bytes(b))) => Some(b.clone()),
                _ => Some(vec![255, 255]),
            },
            Err(_) => None,
        })
        .collect()
}

// ------------------------------------------------------------------------------------ main
fn layout_term(h: &BlockHeader) -> String {
    format!(
        "({}, {}, {}, {}, {}, {}, {}, {}, {})",
        h.height,
        bytes(&h.prev_hash),
        bytes(&h.tx_root),
        bytes(&h.state_root),
        bytes(&bitcode::serialize(&h.delta_embedding).unwrap()),
        list(h.quantized_codes.iter().map(|x| n(*x as u64))),
        h.timestamp,
        bytes(h.proposer.as_bytes()),
        bytes(&h.signing_bytes())
    )
}

fn main() {
    let args = Args::parse();
    quiet_panics();
    let mut rng = Rng::new(args.seed);
    let mut dist = Dist::default();
    let mut hits = Hits::default();
    let mut seedc = 0u8;
    let mut next_seed = || {
        seedc = seedc.wrapping_add(1);
        seedc
    };

    let mut seq = CaseWriter::new(&args.out, "seq");
    let mut layout = CaseWriter::new(&args.out, "layout");
    let emit_seq = |c: &Ctx, kk: u64, run: &SeqRun, human: &str, seq: &mut CaseWriter| {
        let commits = run.ops.iter().zip(&run.obs).filter(|(o, b)| matches!(o, Op::Commit(..) | Op::CommitU(..)) && b.res == 0).count();
        seq.push(&seq_term(c, kk, c.gts(), run), &format!("{human} ops={:?}", run.ops), commits >= 1 && run.ops.len() >= 3);
    };

    // ---- corpus (every reproduced finding of DESIGN 5 + the ones found while building), first on every run
    {
        // F-C16-rollback: w0 begun, w1 commits, rollback(w0) restores the image taken at w0's begin
        let c = mk(next_seed(), 8, 1, false);
        let run = run_plan(&c, 3, vec![Plan::Begin, Plan::Put(0, 0, vec![1]), Plan::Begin, Plan::Put(1, 1, vec![2]), Plan::Commit(1), Plan::Rollback(0)]);
        emit_seq(&c, 3, &run, "corpus rollback-stale-checkpoint: begin w0; begin w1; commit w1; rollback w0", &mut seq);
        // rollback of a FAILED workspace after another commit
        let c = mk(next_seed(), 1, 0, false);
        let run = run_plan(&c, 3, vec![Plan::Begin, Plan::Put(0, 0, vec![1]), Plan::Put(0, 1, vec![2]), Plan::Begin, Plan::Put(1, 2, vec![3]), Plan::Commit(0), Plan::Commit(1), Plan::Rollback(0)]);
        emit_seq(&c, 3, &run, "corpus rollback of a failed workspace after a later commit", &mut seq);
        // unsigned first block through append_block
        for sig in [1u64, 2, 3] {
            let c = mk(next_seed(), 8, 0, false);
            let mut d = Raw::good(0, vec![Tx::Put(0, vec![1])]);
            d.sig = sig;
            let run = run_plan(&c, 2, vec![Plan::Raw(d, 0)]);
            emit_seq(&c, 2, &run, "corpus first-block-unsigned: append_block at height 1 without a valid signature", &mut seq);
        }
        // a commit that FAILS at append after other workspaces committed since its begin (seeded C16-2 shape):
        // the failure must leave chain and store exactly as they were, the others' blocks and writes included
        let c = mk(next_seed(), 8, 0, false);
        let run = run_plan(
            &c,
            3,
            vec![
                Plan::Begin,
                Plan::Put(0, 0, vec![1]),
                Plan::Begin,
                Plan::Put(1, 1, vec![2]),
                Plan::Commit(1),
                Plan::Begin,
                Plan::Put(2, 2, vec![3]),
                Plan::Commit(2),
                Plan::CommitU(0),
                Plan::Begin,
                Plan::Put(3, 0, vec![4]),
                Plan::Commit(3),
            ],
        );
        emit_seq(&c, 3, &run, "corpus failed commit (proposer unregistered) of a workspace begun before two other commits", &mut seq);
        // timestamp regression through append_block (fixed d4e50a08)
        let c = mk(next_seed(), 8, 0, false);
        let run = run_plan(&c, 2, vec![Plan::Begin, Plan::Put(0, 0, vec![1]), Plan::Commit(0), Plan::Raw(Raw::good(0, vec![Tx::Put(1, vec![2])]), -5), Plan::Raw(Raw::good(0, vec![]), 0)]);
        emit_seq(&c, 2, &run, "corpus timestamp regression through append_block", &mut seq);
    }

    // ---- seq: random histories
    let nseq = args.budget(120, 4000);
    for i in 0..nseq {
        let kk = rng.range(2, 4);
        let maxtx = *rng.pick(&[2u64, 3, 8]);
        let extra = rng.below(2);
        let c = mk(next_seed(), maxtx, extra, rng.chance(1, 2));
        let len = rng.range(3, 22) as usize;
        // a third of the histories without rollback/raw so that long clean chains occur
        let clean = i % 3 == 0;
        let rb = !clean || rng.chance(1, 4);
        let plan = gen_plan(&mut rng, kk, len, &mut dist, !clean, rb);
        let run = run_plan(&c, kk, plan);
        dist.hit(&format!("seq.len.{}", (run.ops.len() / 5) * 5));
        dist.hit(&format!("seq.final_height.{}", c.chain.height().min(6)));
        for o in &run.obs {
            if o.res != 0 {
                dist.hit(&format!("seq.err.{}", o.res));
            }
        }
        emit_seq(&c, kk, &run, "random", &mut seq);
        if i % 4 == 0 {
            for h in 0..=c.chain.height() {
                if let Some(b) = c.block(h) {
                    layout.push(&layout_term(&b.header), &format!("header of a committed block h={h}"), h > 0);
                }
            }
        }
    }

    // ---- layout: crafted headers (codes, embeddings, large integers)
    let nlay = args.budget(150, 3000);
    for _ in 0..nlay {
        let mut h = BlockHeader::new(rng.next() >> rng.below(64), [0; 32], [0; 32], [0; 32], format!("node{}", rng.below(1000)));
        for b in h.prev_hash.iter_mut().chain(h.tx_root.iter_mut()).chain(h.state_root.iter_mut()) {
            *b = rng.below(256) as u8;
        }
        h.timestamp = rng.next() >> rng.below(64);
        let nc = rng.below(4) as usize;
        h.quantized_codes = (0..nc).map(|_| rng.below(65536) as u16).collect();
        let dim = rng.below(6) as usize;
        let dense: Vec<f32> = (0..dim).map(|_| if rng.chance(1, 2) { 0.0 } else { rng.below(7) as f32 - 3.0 }).collect();
        h.delta_embedding = SparseVector::from_dense(&dense);
        if rng.chance(1, 5) {
            h.proposer = String::new();
        }
        // premise of the tamper theorems exercised on the real library: bitcode round trip of the embedding
        let eb = bitcode::serialize(&h.delta_embedding).unwrap();
        let back: SparseVector = bitcode::deserialize(&eb).unwrap();
        if back != h.delta_embedding {
            hits.push("", "bitcode round trip of a SparseVector failed", json!({"dense": format!("{dense:?}")}));
        }
        layout.push(&layout_term(&h), &format!("crafted header {:?}", h), nc > 0 || dim > 0);
        dist.hit(&format!("layout.codes.{nc}"));
    }

    // ---- tamper: every mutation of every stored block of each chain
    let mut tamper = CaseWriter::new(&args.out, "tamper");
    let nchains = args.budget(10, 200);
    for ci in 0..nchains + 2 {
        let kk = 4;
        let extra = if ci % 2 == 0 { 1 } else { 0 };
        let c = mk(next_seed(), 8, extra, false);
        // chain builders: commits only (corpus: genesis-only chain, chain with 3- and 6-tx blocks)
        let mut plan = vec![];
        let nblocks = if ci == 0 { 0 } else if ci == 1 { 3 } else { rng.range(1, 4) };
        let mut uniq = 0u8;
        for w in 0..nblocks as usize {
            plan.push(Plan::Begin);
            let ntx = if ci == 1 { [3usize, 6, 1][w] } else { rng.range(1, 5) as usize };
            for _ in 0..ntx {
                if rng.chance(5, 6) {
                    plan.push(Plan::Put(w, rng.below(kk), gen_val(&mut rng, &mut uniq)));
                } else {
                    plan.push(Plan::Del(w, rng.below(kk)));
                }
            }
            plan.push(Plan::Commit(w));
        }
        let run = run_plan(&c, kk, plan);
        if c.ver() != 0 {
            hits.push("", "verify() fails on a chain built by commits only", json!({"ops": format!("{:?}", run.ops)}));
            continue;
        }
        let opsc = list(run.ops.iter().map(|o| o.coq()));
        let muts = all_muts(&c, &mut rng);
        let mut detected: HashMap<u64, Vec<(Mut, u64)>> = HashMap::new();
        for m in muts {
            let v = try_mut(&c, &m);
            dist.hit(&format!("tamper.{}.{}", m.kind(), if v == 0 { "UNDETECTED" } else { "detected" }));
            if c.ver() != 0 {
                hits.push("", "chain does not verify after the mutated records were put back (harness bug)", json!({"mut": format!("{m:?}")}));
            }
            if v == 0 {
                // every undetected mutation is its own case
                let t = format!("({}, ({}, {}, {}, [({}, 0)]))", c.extra, c.maxtx, c.gts(), opsc, m.coq());
                tamper.push(&t, &format!("UNDETECTED {:?} on chain height {} built by {:?}", m, c.chain.height(), run.ops), true);
            } else {
                let idx = match &m {
                    Mut::Height(i, _) | Mut::Prev(i) | Mut::TxRoot(i) | Mut::SRoot(i) | Mut::Emb(i) | Mut::Codes(i, _) | Mut::Ts(i, _)
                    | Mut::Proposer(i, _) | Mut::Sig(i, _) | Mut::Txs(i, _) | Mut::VSigs(i) | Mut::Remove(i) | Mut::Swap(i, _)
                    | Mut::Copy(i, _) | Mut::Forge(i, _, _) => *i,
                };
                detected.entry(idx).or_default().push((m, v));
            }
        }
        let mut keys: Vec<u64> = detected.keys().copied().collect();
        keys.sort();
        for i in keys {
            let ms = &detected[&i];
            let t = format!(
                "({}, ({}, {}, {}, {}))",
                c.extra,
                c.maxtx,
                c.gts(),
                opsc,
                list(ms.iter().map(|(m, v)| format!("({}, {})", m.coq(), v)))
            );
            tamper.push(&t, &format!("block {i} of chain height {}: {} detected mutations {:?}", c.chain.height(), ms.len(), ms), true);
        }
    }

    // ---- conc: 2-4 concurrent commits
    let mut conc = CaseWriter::new(&args.out, "conc");
    let nconc = args.budget(14, 300);
    for ci in 0..nconc {
        let kk = 6u64;
        let maxtx = 3u64;
        let c = mk(next_seed(), maxtx, 0, ci % 2 == 0);
        let mut uniq = 0u8;
        // a prefix of sequential commits
        let npre = rng.below(3) as usize;
        let mut pre_blocks: Vec<Vec<Tx>> = vec![];
        for _ in 0..npre {
            let ntx = rng.range(1, 2) as usize;
            let l = gen_txs_unique(&mut rng, kk, ntx, &mut uniq);
            let w = c.chain.begin().unwrap();
            for t in &l {
                w.add_operation(t.real()).unwrap();
            }
            c.chain.commit(&w).unwrap();
            pre_blocks.push(l);
        }
        let nthr = if ci == 0 { 2 } else { rng.range(2, 4) as usize };
        let wss: Vec<Vec<Tx>> = (0..nthr)
            .map(|t| {
                if ci == 0 {
                    vec![Tx::Put(t as u64, vec![t as u8])] // F-C16-race corpus: Put key0 / Put key1
                } else {
                    let ntx = match rng.below(10) {
                        0 => 0,
                        1 => 4, // exceeds max_txs_per_block
                        _ => rng.range(1, 3) as usize,
                    };
                    { let kr = if rng.chance(1, 2) { 2 } else { kk }; gen_txs_unique(&mut rng, kr, ntx, &mut uniq) }
                }
            })
            .collect();
        let mut order: Vec<usize> = (0..nthr).collect();
        rng.shuffle(&mut order);
        let use_hook = ci % 5 != 4;
        dist.hit(if use_hook { "conc.hook" } else { "conc.barrier" });
        dist.hit(&format!("conc.threads.{nthr}"));
        let (res, _raced) = conc_run(&c, &wss, &order, use_hook, &mut dist);
        let n = c.chain.height();
        let chain_txs: Vec<Vec<Tx>> = (1..=n).map(|h| c.block(h).map(|b| b.transactions.iter().filter_map(Tx::of).collect()).unwrap_or_default()).collect();
        let tss: Vec<u64> = (1..=n).map(|h| c.block(h).map(|b| b.header.timestamp).unwrap_or(0)).collect();
        let mut all_ws = pre_blocks.clone();
        all_ws.extend(wss.iter().cloned());
        let mut all_res = vec![0u64; npre];
        all_res.extend(res.iter().copied());
        let t = format!(
            "({}, ({}, {}, {}, {}, {}, {}, {}, {}, {}))",
            c.extra,
            kk,
            maxtx,
            c.gts(),
            list(all_ws.iter().map(|l| txs_coq(l))),
            list(tss.iter().map(|x| n_(*x))),
            list(all_res.iter().map(|x| n_(*x))),
            list(chain_txs.iter().map(|l| txs_coq(l))),
            c.ver(),
            dump_coq(&c.dump(kk))
        );
        for r in &res {
            dist.hit(&format!("conc.result.{r}"));
        }
        conc.push(&t, &format!("prefix={:?} concurrent={:?} start_order={:?} hook={} results={:?}", pre_blocks, wss, order, use_hook, res), true);
    }

    // ---- merge: commits of workspaces that carry embeddings (conflict detection + auto-merge), sequential and
    // concurrent; implementation-only oracle (kind merge)
    let mut merge = CaseWriter::new(&args.out, "merge");
    let nmerge = args.budget(40, 1200);
    for mi in 0..nmerge {
        let kk = 6u64;
        let auto = mi % 3 != 0;
        // every 4th case (and the two corpus cases first): trained codebook, 2-dimensional deltas
        let trained = mi < 2 || mi % 4 == 3;
        // every 5th case (and corpus case 2): a block limit that each workspace meets alone but a merged batch exceeds
        let tight = mi == 2 || (mi > 2 && mi % 5 == 4 && !trained);
        let limit = if tight { rng.range(2, 3) } else { 8 };
        let c = if trained { mk_codebook(next_seed(), 8) } else { mk(next_seed(), limit, 0, auto || tight) };
        let auto = auto || tight;
        let auto = auto || trained;
        let mut uniq = 0u8;
        let nws = if mi < 2 { 2 } else { rng.range(2, 4) as usize };
        let wss: Vec<Vec<Tx>> = (0..nws)
            .map(|_| {
                let ntx = if tight { 2 } else if mi >= 2 && rng.chance(1, 8) { 0 } else { rng.range(1, 2) as usize };
                let kr = if rng.chance(1, 2) { 2 } else { kk };
                gen_txs_unique(&mut rng, kr, ntx, &mut uniq)
            })
            .collect();
        // embedding direction per workspace: None = no embedding; equal directions conflict, different ones are orthogonal
        let mut dirs: Vec<Option<usize>> = (0..nws)
            .map(|_| if rng.chance(1, 5) { None } else { Some(rng.below(if trained { 2 } else { 3 }) as usize) })
            .collect();
        if mi == 2 {
            // corpus (seeded C16-r5-3 shape): two orthogonal workspaces of 2 operations each, limit 2 or 3
            dirs = (0..nws).map(|i| Some(i % 3)).collect();
        }
        if mi < 2 {
            // corpus (seeded C16-r3-2 shape): A along the centroid, B orthogonal; commit(A) must not carry B's operations
            dirs = vec![Some(0), Some(1)];
        }
        let works: Vec<Arc<TransactionWorkspace>> = wss
            .iter()
            .zip(&dirs)
            .map(|(l, d)| {
                let w = c.chain.begin().unwrap();
                for t in l {
                    w.add_operation(t.real()).unwrap();
                }
                if let Some(d) = d {
                    let dim = if trained { 2 } else { 128 };
                    let before = vec![0.0f32; dim];
                    let mut after = vec![0.0f32; dim];
                    after[if trained { *d } else { *d * 7 }] = if trained { 1.0 } else { 1.0 + rng.below(3) as f32 };
                    w.set_before_embedding(&before);
                    w.compute_delta(&after);
                }
                w
            })
            .collect();
        let concurrent = mi > 2 && if trained { (mi / 4) % 2 == 1 } else { mi % 2 == 1 };
        let mut order: Vec<usize> = (0..nws).collect();
        if mi >= 2 {
            rng.shuffle(&mut order);
        } else if mi == 1 {
            order = vec![0]; // B never calls commit
        }
        if mi >= 2 && rng.chance(1, 3) {
            order.truncate(nws - 1); // somebody never calls commit (may still be absorbed by a merge)
        }
        let res: Arc<Mutex<Vec<u64>>> = Arc::new(Mutex::new(vec![98; nws]));
        if concurrent {
            let bar = Arc::new(Barrier::new(order.len()));
            let hs: Vec<_> = order
                .iter()
                .map(|&i| {
                    let ch = c.chain.clone();
                    let w = works[i].clone();
                    let res = res.clone();
                    let bar = bar.clone();
                    std::thread::spawn(move || {
                        bar.wait();
                        let r = ch.commit(&w);
                        res.lock().unwrap()[i] = code(&r);
                    })
                })
                .collect();
            for h in hs {
                let _ = h.join();
            }
        } else {
            for &i in &order {
                let r = c.chain.commit(&works[i]);
                res.lock().unwrap()[i] = code(&r);
            }
        }
        let res = res.lock().unwrap().clone();
        let comm: Vec<bool> = works.iter().map(|w| w.state() == tensor_chain::TransactionState::Committed).collect();
        let n = c.chain.height();
        let chain_txs: Vec<Vec<Tx>> = (1..=n).map(|h| c.block(h).map(|b| b.transactions.iter().filter_map(Tx::of).collect()).unwrap_or_default()).collect();
        let merged_blocks = chain_txs.iter().filter(|b| wss.iter().filter(|l| !l.is_empty() && b.len() > l.len() && b.windows(l.len()).any(|w| w == &l[..])).count() >= 2).count();
        if tight {
            dist.hit("merge.tight_block_limit");
        }
        dist.hit(&format!("merge.auto_{}.{}{}", auto, if concurrent { "concurrent" } else { "sequential" }, if trained { ".trained_codebook" } else { "" }));
        for w in &works {
            dist.hit(&format!("merge.final_state.{:?}", w.state()));
        }
        dist.add("merge.blocks_holding_several_workspaces", merged_blocks as u64);
        for r in &res {
            dist.hit(&format!("merge.result.{r}"));
        }
        let t = format!(
            "({}, ({}, {}, {}, {}, {}, {}, {}))",
            c.extra,
            kk,
            list(wss.iter().map(|l| txs_coq(l))),
            list(comm.iter().map(|x| b(*x))),
            list(res.iter().map(|x| n_(*x))),
            list(chain_txs.iter().map(|l| txs_coq(l))),
            c.ver(),
            dump_coq(&c.dump(kk))
        );
        merge.push(
            &t,
            &format!("auto_merge={} concurrent={} workspaces={:?} directions={:?} commit_order={:?} results={:?} committed={:?} blocks={:?}", auto, concurrent, wss, dirs, order, res, comm, chain_txs),
            comm.iter().filter(|x| **x).count() >= 2,
        );
    }

    // ---- dup: several commit() calls on ONE workspace, from several threads.  The schedule point
    // chain.workspace.is_active lets every caller that tests is_active() before claiming the workspace wait for the
    // others (a check-then-claim in two steps is then hit deterministically); code that claims under one lock never
    // reaches the point here (the workspace is the only active one) and runs freely.
    let mut dup = CaseWriter::new(&args.out, "dup");
    let ndup = args.budget(16, 400);
    for di in 0..ndup {
        let c = mk(next_seed(), 8, 0, di % 2 == 0);
        let mut uniq = 0u8;
        // a prefix of ordinary commits
        for _ in 0..rng.below(3) {
            let l = gen_txs_unique(&mut rng, 4, 1, &mut uniq);
            let w = c.chain.begin().unwrap();
            for t in &l {
                w.add_operation(t.real()).unwrap();
            }
            c.chain.commit(&w).unwrap();
        }
        let ntx = rng.range(1, 3) as usize;
        let ops = gen_txs_unique(&mut rng, 4, ntx, &mut uniq);
        let w = c.chain.begin().unwrap();
        for t in &ops {
            w.add_operation(t.real()).unwrap();
        }
        let ncall = if di == 0 { 2 } else { rng.range(2, 4) as usize };
        let arrived = Arc::new((Mutex::new(0usize), Condvar::new()));
        let go = Arc::new((Mutex::new(false), Condvar::new()));
        {
            let (arrived, go) = (arrived.clone(), go.clone());
            tensor_store::verif_hook::set(Some(Arc::new(move |name: &str| {
                if name != "chain.workspace.is_active" || TID.with(|t| t.get()) == usize::MAX {
                    return;
                }
                {
                    let mut n = arrived.0.lock().unwrap();
                    *n += 1;
                    arrived.1.notify_all();
                }
                let mut g = go.0.lock().unwrap();
                let deadline = std::time::Instant::now() + Duration::from_millis(600);
                while !*g {
                    let left = deadline.saturating_duration_since(std::time::Instant::now());
                    if left.is_zero() {
                        break;
                    }
                    g = go.1.wait_timeout(g, left).unwrap().0;
                }
            })));
        }
        let bar = Arc::new(Barrier::new(ncall));
        let hs: Vec<_> = (0..ncall)
            .map(|i| {
                let (ch, w, bar) = (c.chain.clone(), w.clone(), bar.clone());
                std::thread::spawn(move || {
                    TID.with(|t| t.set(i));
                    bar.wait();
                    code(&ch.commit(&w))
                })
            })
            .collect();
        // let every caller that reaches the point gather there (nobody does when the claim is atomic), then go
        {
            let mut n = arrived.0.lock().unwrap();
            let deadline = std::time::Instant::now() + Duration::from_millis(150);
            while *n < ncall {
                let left = deadline.saturating_duration_since(std::time::Instant::now());
                if left.is_zero() {
                    break;
                }
                n = arrived.1.wait_timeout(n, left).unwrap().0;
            }
            if *n > 0 {
                dist.add("dup.callers_parked_between_check_and_claim", *n as u64);
            }
        }
        *go.0.lock().unwrap() = true;
        go.1.notify_all();
        let res: Vec<u64> = hs.into_iter().map(|h| h.join().unwrap_or(97)).collect();
        tensor_store::verif_hook::set(None);
        let n = c.chain.height();
        let chain_txs: Vec<Vec<Tx>> = (1..=n).map(|h| c.block(h).map(|b| b.transactions.iter().filter_map(Tx::of).collect()).unwrap_or_default()).collect();
        for r in &res {
            dist.hit(&format!("dup.result.{r}"));
        }
        let t = format!(
            "({}, ({}, {}, {}, {}))",
            c.extra,
            txs_coq(&ops),
            list(res.iter().map(|x| n_(*x))),
            list(chain_txs.iter().map(|l| txs_coq(l))),
            c.ver()
        );
        dup.push(&t, &format!("{} threads call commit() on one workspace {:?}: results={:?} blocks={:?}", ncall, ops, res, chain_txs), true);
    }

    // ---- commitroot: one commit of a workspace mixing every transaction kind (several table operations on one
    // table, repeated keys, compare-and-swap): the store must reflect ALL the block's operations in order, i.e. the
    // header's state root equals the root of a replica that restores the pre-commit image and replays the block
    let mut croot = CaseWriter::new(&args.out, "commitroot");
    let ncr = args.budget(40, 1500);
    for ci in 0..ncr {
        let kk = 4u64;
        let c = mk(next_seed(), 12, 0, false);
        let mut uniq = 0u8;
        let ncommits = rng.range(1, 3);
        for cj in 0..ncommits {
            let mut l: Vec<Tx> = vec![];
            if ci == 0 && cj == 0 {
                // corpus (seeded C16-r4-2 shape): insert, update, insert, delete on ONE table, puts in between
                l = vec![Tx::Other(4, 1, 0), Tx::Put(0, vec![1]), Tx::Other(5, 1, 1), Tx::Other(4, 1, 2), Tx::Put(0, vec![2]), Tx::Other(6, 1, 7), Tx::Other(4, 2, 0)];
            } else {
                let n = rng.range(2, 7) as usize;
                let table = rng.below(2);
                for _ in 0..n {
                    l.push(match rng.below(6) {
                        0 | 1 => Tx::Other(rng.range(4, 6), table, rng.below(4)),
                        2 => Tx::Other(rng.below(8), rng.below(2), rng.below(3)),
                        3 => Tx::Del(rng.below(kk)),
                        _ => Tx::Put(rng.below(kk), gen_val(&mut rng, &mut uniq)),
                    });
                }
            }
            let pre_image = c.chain.store().snapshot_bytes().unwrap();
            let pre = c.dump(kk);
            let w = c.chain.begin().unwrap();
            for t in &l {
                w.add_operation(t.real()).unwrap();
            }
            let r = c.chain.commit(&w);
            let post = c.dump(kk);
            let (lroot, rroot) = match c.block(c.chain.height()) {
                Some(b) if r.is_ok() => {
                    let replica = TensorStore::new();
                    replica.restore_from_bytes(&pre_image).unwrap();
                    for t in &b.transactions {
                        let _ = tensor_chain::transaction::apply_transaction_to_store(&replica, t);
                    }
                    (b.header.state_root, tensor_chain::compute_state_root(&replica).unwrap())
                }
                _ => ([0u8; 32], [1u8; 32]),
            };
            let tables = l.iter().filter(|t| matches!(t, Tx::Other(4..=6, _, _))).count();
            dist.hit(&format!("commitroot.table_ops.{}", tables.min(4)));
            let t = format!(
                "({}, ({}, {}, {}, {}, {}, {}, {}))",
                c.extra,
                kk,
                code(&r),
                dump_coq(&pre),
                txs_coq(&l),
                dump_coq(&post),
                if lroot == rroot { 0 } else { 1 },
                c.ver()
            );
            croot.push(&t, &format!("commit #{cj} of {:?}: result={} header root == replayed root: {}", l, code(&r), lroot == rroot), tables >= 2);
        }
    }

    // ---- replay: the same blocks on two replicas
    // mode "shared" = production wiring (cluster.rs, every test of the crate): chain records and state in ONE
    // store, blocks produced by a leader TensorChain; mode "separate" = state in its own store, blocks built by the
    // harness with the root derived on a scratch copy of the state.
    let mut replay = CaseWriter::new(&args.out, "replay");
    let nrep = args.budget(30, 600);
    for ri in 0..nrep {
        let kk = 4u64;
        let shared = ri % 2 == 0;
        let c = mk(next_seed(), 8, 0, false);
        let image = c.chain.store().snapshot_bytes().unwrap();
        let gts = c.gts();
        let nb = rng.range(1, 5) as usize;
        let mut uniq = 0u8;
        let mut outs: Vec<(Vec<(u64, [u8; 32])>, Vec<Option<Vec<u8>>>)> = vec![];
        let mut offered_desc: Vec<(Vec<Tx>, bool, Raw)> = vec![];
        let mut only: Vec<u64> = vec![]; // per offered block: 0 = both replicas, 1 = replica 0 only, 2 = replica 1 only
        let mut init_roots: Vec<[u8; 32]> = vec![];
        if shared {
            let mut blocks: Vec<(Block, Vec<Tx>)> = vec![];
            for _ in 0..nb {
                let ntx = rng.range(1, 3) as usize;
                let l = gen_txs(&mut rng, kk, ntx, &mut uniq);
                let w = c.chain.begin().unwrap();
                for t in &l {
                    w.add_operation(t.real()).unwrap();
                }
                c.chain.commit(&w).unwrap();
                blocks.push((c.block(c.chain.height()).unwrap(), l));
            }
            // offered: leader blocks in order, corrupted-root copies and duplicates in between.  Only the FIRST
            // leader block can match a replica's root: afterwards the leader's root covers its own chain-link
            // graph nodes, whose _created_at is the leader's wall clock (known finding state-root-covers-chain-records)
            let mut offered: Vec<Block> = vec![];
            for (bi, (b, l)) in blocks.iter().enumerate() {
                if rng.chance(1, 4) {
                    let mut bad = b.clone();
                    bad.header.state_root[3] ^= 0x55;
                    offered.push(bad);
                    offered_desc.push((l.clone(), false, Raw::good(b.header.timestamp, vec![])));
                    only.push(0);
                    dist.hit("replay.shared.corrupt_root");
                }
                offered.push(b.clone());
                offered_desc.push((l.clone(), bi == 0, Raw::good(b.header.timestamp, vec![])));
                only.push(0);
                dist.hit("replay.shared.leader_block");
            }
            std::thread::sleep(Duration::from_millis(3));
            for _ in 0..2 {
                let rep = mk_replica(&image, &c.me, true);
                init_roots.push(tensor_chain::compute_state_root(&rep.store).unwrap());
                let mut rs = vec![];
                for b in &offered {
                    let r = rep.sm.apply_block(b);
                    let root = tensor_chain::compute_state_root(&rep.store).unwrap();
                    rs.push((code(&r), root));
                }
                outs.push((rs, rdump(&rep.store, kk)));
                std::thread::sleep(Duration::from_millis(3));
            }
        } else {
            let reps = [mk_replica(&image, &c.me, false), mk_replica(&image, &c.me, false)];
            let oracle = TensorStore::new(); // harness-side mirror of the accepted state
            let mut seen: Vec<Tx> = vec![];
            let mut delivered: Vec<(Block, Vec<Tx>)> = vec![];
            for rep in reps.iter() {
                init_roots.push(tensor_chain::compute_state_root(&rep.store).unwrap());
            }
            let mut rs: [Vec<(u64, [u8; 32])>; 2] = [vec![], vec![]];
            let mut ts = gts;
            let nb = nb + 2;
            for bi in 0..nb {
                let ntx = rng.range(0, 3) as usize;
                let mut l = gen_txs(&mut rng, kk, ntx, &mut uniq);
                // every transaction kind, and repeats of earlier transactions (identical payloads included)
                for _ in 0..rng.below(3) {
                    let t = if !seen.is_empty() && rng.chance(1, 2) {
                        seen[rng.below(seen.len() as u64) as usize].clone()
                    } else {
                        Tx::Other(rng.below(8), rng.below(3), rng.below(3))
                    };
                    let pos = rng.below(l.len() as u64 + 1) as usize;
                    l.insert(pos, t);
                }
                if ri == 5 && bi < 3 {
                    // corpus (seeded C16-r5-2 shape): b1 and b2 write the same key, then b1 is delivered AGAIN to one replica
                    l = [vec![Tx::Put(0, vec![1])], vec![Tx::Put(0, vec![2])], vec![Tx::Put(1, vec![3])]][bi].clone();
                }
                if ri == 1 && bi < 3 {
                    // corpus: the same TableInsert (identical payload) in two blocks, then twice in one block
                    l = [vec![Tx::Other(4, 1, 0)], vec![Tx::Other(4, 1, 0), Tx::Put(0, vec![9])], vec![Tx::Other(4, 2, 1), Tx::Other(4, 2, 1)]][bi].clone();
                }
                seen.extend(l.iter().cloned());
                for t in &l {
                    if let Tx::Other(k, _, _) = t {
                        dist.hit(&format!("replay.txkind.{k}"));
                    }
                }
                let scratch = TensorStore::new();
                scratch.restore_from_bytes(&oracle.snapshot_bytes().unwrap()).unwrap();
                for t in &l {
                    tensor_chain::transaction::apply_transaction_to_store(&scratch, &t.real()).unwrap();
                }
                let mut root = tensor_chain::compute_state_root(&scratch).unwrap();
                let mut d = Raw::good(0, vec![]);
                let mut good = true;
                // block embedding: None, or a direction (similar embeddings let a replica take its fast path)
                let mut emb: Option<Vec<f32>> = match rng.below(4) {
                    0 => None,
                    k => Some(match k {
                        1 => vec![1.0, 0.0, 0.0, 0.0],
                        2 => vec![0.99, 0.02, 0.0, 0.0],
                        _ => vec![0.0, 1.0, 0.0, 0.0],
                    }),
                };
                let corpus_fast = ri == 3 && bi < 4;
                let corpus_redeliver = ri == 5 && bi < 3;
                if corpus_fast {
                    // corpus (seeded C16-r4-3 shape): good block with embedding e; then a FALSE root with a similar
                    // embedding; then a good one; then another false root
                    emb = Some(vec![1.0, if bi % 2 == 1 { 0.01 } else { 0.0 }, 0.0, 0.0]);
                }
                match if corpus_fast { if bi % 2 == 1 { 0 } else { 7 } } else if corpus_redeliver { 7 } else { rng.below(8) } {
                    0 => {
                        root[5] ^= 1;
                        good = false;
                    }
                    1 => d.height = rng.range(1, 2),
                    2 => d.prev = rng.range(1, 2),
                    3 => d.sig = rng.range(1, 3),
                    _ => {}
                }
                ts += rng.below(3);
                d.ts = ts;
                d.txs = l.clone();
                // height / prev are taken from replica 0's chain (both replicas hold the same chain)
                let ch = reps[0].sm.chain();
                let hgt = match d.height {
                    0 => ch.height() + 1,
                    1 => ch.height() + 2,
                    _ => ch.height(),
                };
                let prev = match d.prev {
                    0 => ch.tip_hash(),
                    1 => [0u8; 32],
                    _ => [0xAB; 32],
                };
                let who = if d.sig == 3 { &c.unk } else { &c.me };
                let mut hdr = BlockHeader::new(hgt, prev, [0u8; 32], root, who.node_id());
                hdr.delta_embedding = match &emb {
                    Some(e) => SparseVector::from_dense(e),
                    None => SparseVector::new(128),
                };
                hdr.timestamp = d.ts;
                dist.hit(if emb.is_some() { "replay.separate.block_with_embedding" } else { "replay.separate.block_without_embedding" });
                let mut blk = Block::new(hdr, l.iter().map(|t| t.real()).collect());
                blk.header.tx_root = blk.compute_tx_root();
                blk.header.signature = match d.sig {
                    1 => vec![],
                    2 => vec![0xAA; 64],
                    _ => who.sign(&blk.header.signing_bytes()),
                };
                dist.hit(&format!("replay.separate.h{}p{}s{}{}", d.height, d.prev, d.sig, if good { "" } else { ".badroot" }));
                let mut acc = false;
                for (ri2, rep) in reps.iter().enumerate() {
                    if ri2 == 1 {
                        // replica 1 behaves like a freshly restarted node: no memory of recent block embeddings
                        rep.sm.clear_recent();
                    }
                    let r = rep.sm.apply_block(&blk);
                    acc = r.is_ok();
                    let rt = tensor_chain::compute_state_root(&rep.store).unwrap();
                    rs[ri2].push((code(&r), rt));
                }
                if acc {
                    oracle.restore_from_bytes(&scratch.snapshot_bytes().unwrap()).unwrap();
                    if d.ts > ts {
                        ts = d.ts;
                    }
                }
                let mut dd = d.clone();
                dd.txs = vec![];
                offered_desc.push((l.clone(), good, dd.clone()));
                only.push(0);
                if acc {
                    delivered.push((blk.clone(), l.clone()));
                }
                // an EARLIER accepted block delivered again (duplicate / out of order) to ONE replica between good blocks
                if delivered.len() >= 2 && ((corpus_redeliver && bi == 1) || (!corpus_redeliver && rng.chance(1, 4))) {
                    let pick = if corpus_redeliver { 0 } else { rng.below(delivered.len() as u64 - 1) as usize };
                    let (ob, ol) = delivered[pick].clone();
                    let who = if corpus_redeliver { 0 } else { rng.below(2) as usize };
                    for (ri2, rep) in reps.iter().enumerate() {
                        if ri2 == who {
                            let r = rep.sm.apply_block(&ob);
                            let rt = tensor_chain::compute_state_root(&rep.store).unwrap();
                            rs[ri2].push((code(&r), rt));
                        } else {
                            let rt = tensor_chain::compute_state_root(&rep.store).unwrap();
                            rs[ri2].push((99, rt));
                        }
                    }
                    dist.hit("replay.separate.redelivered_to_one_replica");
                    offered_desc.push((ol, false, dd));
                    only.push(who as u64 + 1);
                }
            }
            for (i, rep) in reps.iter().enumerate() {
                outs.push((rs[i].clone(), rdump(&rep.store, kk)));
            }
        }
        // direct replay: every offered transaction list applied, in order, to two fresh stores
        let direct: Vec<[u8; 32]> = (0..2)
            .map(|_| {
                let st = TensorStore::new();
                for (l, _, _) in &offered_desc {
                    for t in l {
                        let _ = tensor_chain::transaction::apply_transaction_to_store(&st, &t.real());
                    }
                }
                tensor_chain::compute_state_root(&st).unwrap()
            })
            .collect();
        // root ids: distinct roots numbered in order of first appearance over both replicas
        let mut ids: HashMap<[u8; 32], u64> = HashMap::new();
        let mut idof = |r: &[u8; 32]| {
            let nxt = ids.len() as u64;
            *ids.entry(*r).or_insert(nxt)
        };
        let rr: Vec<String> = outs.iter().map(|(rs, _)| list(rs.iter().map(|(c, r)| format!("({}, {})", c, idof(r))))).collect();
        let accepted = outs[0].0.iter().filter(|(c, _)| *c == 0).count();
        dist.hit(&format!("replay.{}.accepted.{}", if shared { "shared" } else { "separate" }, accepted.min(6)));
        for (cd, _) in &outs[0].0 {
            if *cd != 0 {
                dist.hit(&format!("replay.err.{cd}"));
            }
        }
        let t = format!(
            "({}, ({}, {}, {}, {}, {}, {}, {}, {}, ({}, {}), {}, ({}, {})))",
            c.extra,
            kk,
            gts,
            b(shared),
            list(offered_desc.iter().map(|(l, good, d)| format!("({}, {}, {})", txs_coq(l), b(*good), d.coq()))),
            rr[0],
            rr[1],
            dump_coq(&outs[0].1),
            dump_coq(&outs[1].1),
            idof(&direct[0]),
            idof(&direct[1]),
            list(only.iter().map(|x| n_(*x))),
            idof(&init_roots[0]),
            idof(&init_roots[1])
        );
        replay.push(
            &t,
            &format!("shared_store={} offered={:?} results1={:?}", shared, offered_desc, outs[0].0.iter().map(|x| x.0).collect::<Vec<_>>()),
            accepted >= 1,
        );
    }

    let _ = AtomicUsize::new(0).load(Ordering::SeqCst);
    write_meta(
        &args.out,
        json!({
            "property": "C16", "seed": args.seed, "tier": args.tier,
            "kinds": [seq.summary(), layout.summary(), tamper.summary(), conc.summary(), merge.summary(), dup.summary(), croot.summary(), replay.summary()],
            "distribution": dist.json(),
            "hits": hits.0,
            "nontrivial_rule": "seq: >= 3 calls with at least one successful commit; tamper: every case (a mutated stored block); conc: every case (>= 2 concurrent commits); merge: at least two workspaces end Committed; dup: every case (>= 2 commit() calls on one workspace); commitroot: the block holds >= 2 table operations; replay: at least one block accepted; layout: a non-genesis committed header or a crafted one with codes/embedding",
        }),
    );
}
fn n_(x: u64) -> String {
    n(x)
}
