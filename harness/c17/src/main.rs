//! C17 correspondence harness: drives the real `LWWMembershipState` (tensor_chain/src/gossip.rs).
//! Three case kinds, all written as Gallina terms for NV.C17.Run:
//!   trace  : (M, ops, observations)           -> check_trace   (model = impl; never-backwards oracle)
//!   conv   : (M, delivery1, delivery2, d1, d2) -> check_conv    (convergence oracle; tie class known)
//!   global : (M, gops, dumps)                  -> check_global  (failed-incarnation bound oracle)
//!   mgr    : (R, maxd, expire, mops, obs)      -> check_mgr     (a cluster of real GossipMembershipManagers
//!            joined by a captured transport: model = impl, never-backwards and failed-bound oracles)
use nvh_common::*;
use async_trait::async_trait;
use parking_lot::Mutex;
use std::sync::Arc;
use tensor_chain::gossip::{GossipConfig, GossipMembershipManager, GossipMessage, GossipNodeState, LWWMembershipState};
use tensor_chain::network::{Message, PeerConfig, Transport};
use tensor_chain::membership::NodeHealth;

fn hcode(h: NodeHealth) -> u64 {
    match h {
        NodeHealth::Healthy => 0,
        NodeHealth::Degraded => 1,
        NodeHealth::Failed => 2,
        NodeHealth::Unknown => 3,
        _ => 4,
    }
}
fn hof(c: u64) -> NodeHealth {
    match c {
        0 => NodeHealth::Healthy,
        1 => NodeHealth::Degraded,
        2 => NodeHealth::Failed,
        _ => NodeHealth::Unknown,
    }
}
fn name(m: u64) -> String {
    format!("n{m}")
}
fn idx(s: &str) -> u64 {
    s[1..].parse().unwrap()
}

#[derive(Clone, Copy, PartialEq, Eq, Hash, Debug)]
struct Upd {
    m: u64,
    h: u64,
    ts: u64,
    inc: u64,
}
impl Upd {
    fn coq(&self) -> String {
        format!("({}, U {} {} {})", self.m, self.h, self.ts, self.inc)
    }
    fn state(&self) -> GossipNodeState {
        GossipNodeState::with_wall_time(name(self.m), hof(self.h), self.ts, self.inc, 0)
    }
}

fn dump(s: &LWWMembershipState, mm: u64) -> Vec<Option<(u64, u64, u64)>> {
    (0..mm)
        .map(|m| s.get(&name(m)).map(|g| (hcode(g.health), g.timestamp, g.incarnation)))
        .collect()
}
fn dump_coq(d: &[Option<(u64, u64, u64)>]) -> String {
    list(d.iter().map(|o| opt(o.map(|(h, t, i)| format!("(U {h} {t} {i})")))))
}

#[derive(Clone, Debug)]
enum Op {
    Merge(Vec<Upd>),
    Suspect(u64, u64),
    Fail(u64),
    Refute(u64, u64),
    MarkHealthy(u64),
    UpdateLocal(u64, u64, u64),
    SyncTime(u64),
    Tick,
}
impl Op {
    fn coq(&self) -> String {
        match self {
            Op::Merge(us) => format!("OMerge {}", list(us.iter().map(|u| u.coq()))),
            Op::Suspect(m, i) => format!("OSuspect {m} {i}"),
            Op::Fail(m) => format!("OFail {m}"),
            Op::Refute(m, i) => format!("ORefute {m} {i}"),
            Op::MarkHealthy(m) => format!("OMarkHealthy {m}"),
            Op::UpdateLocal(m, h, i) => format!("OUpdateLocal {m} {h} {i}"),
            Op::SyncTime(t) => format!("OSyncTime {t}"),
            Op::Tick => "OTick".into(),
        }
    }
    /// apply to the real state; returns the call's return value as a list of N
    fn apply(&self, s: &mut LWWMembershipState) -> Vec<u64> {
        match self {
            Op::Merge(us) => {
                let v: Vec<GossipNodeState> = us.iter().map(|u| u.state()).collect();
                s.merge(&v).iter().map(|x| idx(x)).collect()
            }
            Op::Suspect(m, i) => vec![s.suspect(&name(*m), *i) as u64],
            Op::Fail(m) => vec![s.fail(&name(*m)) as u64],
            Op::Refute(m, i) => vec![s.refute(&name(*m), *i) as u64],
            Op::MarkHealthy(m) => vec![s.mark_healthy(&name(*m)) as u64],
            Op::UpdateLocal(m, h, i) => {
                s.update_local(name(*m), hof(*h), *i);
                vec![]
            }
            Op::SyncTime(t) => {
                s.sync_time(*t);
                vec![]
            }
            Op::Tick => {
                s.tick();
                vec![]
            }
        }
    }
}

fn gen_upd(r: &mut Rng, mm: u64, span: u64) -> Upd {
    Upd { m: r.below(mm), h: r.below(4), ts: r.range(1, span), inc: r.range(0, span.min(4)) }
}

fn gen_op(r: &mut Rng, mm: u64, span: u64, dist: &mut Dist) -> Op {
    let k = r.below(100);
    let op = if k < 35 {
        let n = r.below(5) as usize; // empty batches included
        Op::Merge((0..n).map(|_| gen_upd(r, mm, span)).collect())
    } else if k < 48 {
        Op::Suspect(r.below(mm), r.range(0, 4))
    } else if k < 58 {
        Op::Fail(r.below(mm))
    } else if k < 70 {
        Op::Refute(r.below(mm), r.range(0, 6))
    } else if k < 80 {
        Op::MarkHealthy(r.below(mm))
    } else if k < 90 {
        Op::UpdateLocal(r.below(mm), r.below(4), r.range(0, 4))
    } else if k < 96 {
        Op::SyncTime(r.range(0, span * 2))
    } else {
        Op::Tick
    };
    dist.hit(match &op {
        Op::Merge(_) => "op.merge",
        Op::Suspect(..) => "op.suspect",
        Op::Fail(_) => "op.fail",
        Op::Refute(..) => "op.refute",
        Op::MarkHealthy(_) => "op.mark_healthy",
        Op::UpdateLocal(..) => "op.update_local",
        Op::SyncTime(_) => "op.sync_time",
        Op::Tick => "op.tick",
    });
    op
}

fn trace_case(ops: &[Op], mm: u64) -> (String, String, bool) {
    let mut s = LWWMembershipState::new();
    let mut obs = Vec::new();
    let mut any_true = false;
    for o in ops {
        let ret = o.apply(&mut s);
        any_true |= ret.iter().any(|x| *x > 0) || !ret.is_empty();
        obs.push(format!("({}, {}, {})", list(ret.iter().map(|x| n(*x))), s.lamport_time(), dump_coq(&dump(&s, mm))));
    }
    let term = format!("({}, {}, {})", mm, list(ops.iter().map(|o| o.coq())), list(obs));
    let human = format!("M={} ops={:?}", mm, ops);
    (term, human, any_true && ops.len() >= 2)
}

/// split `us` into batches at random cut points
fn batch(r: &mut Rng, us: &[Upd]) -> Vec<Vec<Upd>> {
    let mut out = vec![];
    let mut cur = vec![];
    for u in us {
        cur.push(*u);
        if r.chance(1, 3) {
            out.push(std::mem::take(&mut cur));
        }
    }
    if !cur.is_empty() {
        out.push(cur);
    }
    out
}
fn batches_coq(bs: &[Vec<Upd>]) -> String {
    list(bs.iter().map(|b| list(b.iter().map(|u| u.coq()))))
}
fn deliver(bs: &[Vec<Upd>]) -> LWWMembershipState {
    let mut s = LWWMembershipState::new();
    for b in bs {
        let v: Vec<GossipNodeState> = b.iter().map(|u| u.state()).collect();
        s.merge(&v);
    }
    s
}

fn conv_case(r: &mut Rng, set: &[Upd], mm: u64, dist: &mut Dist) -> (String, String, bool) {
    // delivery = permutation of the set with random repetitions, then random batching
    let mk = |r: &mut Rng| {
        let mut v: Vec<Upd> = set.to_vec();
        let extra = r.below(3);
        for _ in 0..extra {
            v.push(*r.pick(set));
        }
        r.shuffle(&mut v);
        batch(r, &v)
    };
    let b1 = mk(r);
    let b2 = mk(r);
    let d1 = dump(&deliver(&b1), mm);
    let d2 = dump(&deliver(&b2), mm);
    let tie = set.iter().any(|a| set.iter().any(|b| a.m == b.m && a.inc == b.inc && a.ts == b.ts && a.h != b.h));
    dist.hit(if tie { "conv.with_tie_conflict" } else { "conv.no_tie" });
    if d1 != d2 {
        dist.hit("conv.views_differ");
    }
    let term = format!("({}, {}, {}, {}, {})", mm, batches_coq(&b1), batches_coq(&b2), dump_coq(&d1), dump_coq(&d2));
    let human = format!("M={} delivery1={:?} delivery2={:?}", mm, b1, b2);
    (term, human, set.len() >= 2)
}

#[derive(Clone, Debug)]
enum GOp {
    Announce(u64, u64, u64),
    Gossip(u64, u64, Vec<u64>),
    Alive(u64, u64, u64),
    Suspect(u64, u64, u64),
    Fail(u64, u64),
    MarkHealthy(u64, u64),
}
impl GOp {
    fn coq(&self) -> String {
        match self {
            GOp::Announce(m, h, i) => format!("GoAnnounce {m} {h} {i}"),
            GOp::Gossip(s, d, ms) => format!("GoGossip {s} {d} {}", list(ms.iter().map(|x| n(*x)))),
            GOp::Alive(r, m, i) => format!("GoAlive {r} {m} {i}"),
            GOp::Suspect(r, m, i) => format!("GoSuspect {r} {m} {i}"),
            GOp::Fail(r, m) => format!("GoFail {r} {m}"),
            GOp::MarkHealthy(r, m) => format!("GoMarkHealthy {r} {m}"),
        }
    }
}

fn global_case(r: &mut Rng, mm: u64, len: usize, dist: &mut Dist) -> (String, String, bool) {
    let mut reps: Vec<LWWMembershipState> = (0..mm).map(|_| LWWMembershipState::new()).collect();
    let mut ann = vec![0u64; mm as usize];
    let mut ops = vec![];
    let mut dumps = vec![];
    let mut failed_seen = false;
    for _ in 0..len {
        let k = r.below(100);
        let (op, who) = if k < 25 {
            let m = r.below(mm);
            let i = r.range(0, 5);
            let h = if r.chance(4, 5) { 0 } else { r.below(4) };
            reps[m as usize].update_local(name(m), hof(h), i);
            ann[m as usize] = ann[m as usize].max(i);
            dist.hit("gop.announce");
            (GOp::Announce(m, h, i), m)
        } else if k < 60 {
            let s = r.below(mm);
            let d = r.below(mm);
            let cnt = r.below(mm + 1);
            let ms: Vec<u64> = (0..cnt).map(|_| r.below(mm)).collect();
            let states: Vec<GossipNodeState> = ms.iter().filter_map(|m| reps[s as usize].get(&name(*m)).cloned()).collect();
            reps[d as usize].merge(&states);
            dist.hit("gop.gossip");
            (GOp::Gossip(s, d, ms), d)
        } else if k < 70 {
            let rr = r.below(mm);
            let m = r.below(mm);
            let i = r.range(0, ann[m as usize]);
            reps[rr as usize].refute(&name(m), i);
            dist.hit("gop.alive");
            (GOp::Alive(rr, m, i), rr)
        } else if k < 82 {
            let rr = r.below(mm);
            let m = r.below(mm);
            let i = r.range(0, 5);
            reps[rr as usize].suspect(&name(m), i);
            dist.hit("gop.suspect");
            (GOp::Suspect(rr, m, i), rr)
        } else if k < 94 {
            let rr = r.below(mm);
            let m = r.below(mm);
            if reps[rr as usize].fail(&name(m)) {
                failed_seen = true;
            }
            dist.hit("gop.fail");
            (GOp::Fail(rr, m), rr)
        } else {
            let rr = r.below(mm);
            let m = r.below(mm);
            reps[rr as usize].mark_healthy(&name(m));
            dist.hit("gop.mark_healthy");
            (GOp::MarkHealthy(rr, m), rr)
        };
        ops.push(op);
        dumps.push(dump_coq(&dump(&reps[who as usize], mm)));
    }
    let term = format!("({}, {}, {})", mm, list(ops.iter().map(|o| o.coq())), list(dumps));
    (term, format!("M={} gops={:?}", mm, ops), failed_seen)
}

// ------------------------------------------------------------------ manager layer
type Out = Arc<Mutex<Vec<(String, Message)>>>;
struct Cap {
    local: String,
    out: Out,
}
#[async_trait]
impl Transport for Cap {
    async fn send(&self, to: &String, msg: Message) -> tensor_chain::Result<()> {
        self.out.lock().push((to.clone(), msg));
        Ok(())
    }
    async fn broadcast(&self, _msg: Message) -> tensor_chain::Result<()> {
        Ok(())
    }
    async fn recv(&self) -> tensor_chain::Result<(String, Message)> {
        std::future::pending().await
    }
    async fn connect(&self, _peer: &PeerConfig) -> tensor_chain::Result<()> {
        Ok(())
    }
    async fn disconnect(&self, _peer_id: &String) -> tensor_chain::Result<()> {
        Ok(())
    }
    fn peers(&self) -> Vec<String> {
        vec![]
    }
    fn local_id(&self) -> &String {
        &self.local
    }
}

#[derive(Clone, Debug)]
enum MOp {
    Round(u64, Vec<u64>),
    SuspectNode(u64, u64),
    AddPeer(u64, u64),
    Deliver(u64),
}
impl MOp {
    fn coq(&self) -> String {
        match self {
            MOp::Round(r, o) => format!("MRound {r} {}", list(o.iter().map(|x| n(*x)))),
            MOp::SuspectNode(r, m) => format!("MSuspectNode {r} {m}"),
            MOp::AddPeer(r, p) => format!("MAddPeer {r} {p}"),
            MOp::Deliver(k) => format!("MDeliver {k}"),
        }
    }
}

fn gmsg_rank(m: &GossipMessage) -> u64 {
    match m {
        GossipMessage::Sync { .. } => 0,
        GossipMessage::Suspect { .. } => 1,
        GossipMessage::Alive { .. } => 2,
        GossipMessage::PingReq { .. } => 3,
        GossipMessage::PingAck { .. } => 4,
        _ => 5,
    }
}
fn gmsg_coq(m: &GossipMessage) -> String {
    match m {
        GossipMessage::Sync { sender, states, sender_time } => {
            let mut us: Vec<(u64, u64, u64, u64)> =
                states.iter().map(|g| (idx(&g.node_id), hcode(g.health), g.timestamp, g.incarnation)).collect();
            us.sort();
            format!(
                "GSync {} {} {}",
                idx(sender),
                list(us.iter().map(|(m, h, t, i)| format!("({m}, U {h} {t} {i})"))),
                sender_time
            )
        },
        GossipMessage::Suspect { reporter, suspect, incarnation } => format!("GSusp {} {} {}", idx(reporter), idx(suspect), incarnation),
        GossipMessage::Alive { node_id, incarnation } => format!("GAliv {} {}", idx(node_id), incarnation),
        GossipMessage::PingReq { origin, target, sequence } => format!("GPReq {} {} {}", idx(origin), idx(target), sequence),
        GossipMessage::PingAck { origin, target, sequence, success } => {
            format!("GPAck {} {} {} {}", idx(origin), idx(target), sequence, b(*success))
        },
        _ => "GPAck 0 0 0 false".to_string(),
    }
}

struct Cluster {
    rt: tokio::runtime::Runtime,
    mgrs: Vec<GossipMembershipManager>,
    out: Out,
    pool: Vec<(u64, GossipMessage)>,
}
impl Cluster {
    fn new(rr: u64, maxd: u64, expire: bool, full: bool) -> Self {
        let rt = tokio::runtime::Builder::new_current_thread().enable_all().build().unwrap();
        let out: Out = Arc::new(Mutex::new(vec![]));
        let mgrs = (0..rr)
            .map(|i| {
                let cfg = GossipConfig {
                    fanout: 16,
                    indirect_ping_count: 16,
                    max_states_per_message: 1000,
                    geometric_routing: false,
                    suspicion_timeout_ms: if expire { 0 } else { 3_600_000_000 },
                    max_incarnation_delta: maxd,
                    ..GossipConfig::default()
                };
                let m = GossipMembershipManager::new(name(i), cfg, Arc::new(Cap { local: name(i), out: out.clone() }));
                for p in 0..rr {
                    if full && p != i {
                        m.add_peer(name(p));
                    }
                }
                m
            })
            .collect();
        Cluster { rt, mgrs, out, pool: vec![] }
    }
    /// let spawned sender tasks run, then move what the transport captured into the pool (canonical order)
    fn flush(&mut self) -> Vec<(u64, GossipMessage)> {
        self.rt.block_on(async {
            for _ in 0..32 {
                tokio::task::yield_now().await;
            }
        });
        let mut new: Vec<(u64, GossipMessage)> = self
            .out
            .lock()
            .drain(..)
            .filter_map(|(to, m)| match m {
                Message::Gossip(g) => Some((idx(&to), g)),
                _ => None,
            })
            .collect();
        new.sort_by_key(|(d, g)| (gmsg_rank(g), *d));
        self.pool.extend(new.iter().cloned());
        new
    }
    fn dump(&self, r: u64, rr: u64) -> Vec<Option<(u64, u64, u64)>> {
        (0..rr)
            .map(|m| self.mgrs[r as usize].node_state(&name(m)).map(|g| (hcode(g.health), g.timestamp, g.incarnation)))
            .collect()
    }
}

/// one schedule on a cluster; `script` (when given) is replayed instead of random choices
fn mgr_case(r: &mut Rng, rr: u64, maxd: u64, expire: bool, full: bool, len: usize, script: Option<&[MOp]>, dist: &mut Dist) -> (String, String, bool) {
    let mut c = Cluster::new(rr, maxd, expire, full);
    let mut ops = vec![];
    let mut obs = vec![];
    let mut failed_seen = false;
    let mut alive_seen = false;
    let steps = script.map_or(len, |s| s.len());
    for step in 0..steps {
        let choice = match script {
            Some(s) => s[step].clone(),
            None => {
                let k = r.below(100);
                if !full && (r.chance(1, 6) || (c.pool.is_empty() && r.chance(1, 2))) {
                    MOp::AddPeer(r.below(rr), r.below(rr))
                } else if c.pool.is_empty() || k < 18 {
                    if r.chance(1, 2) {
                        MOp::Round(r.below(rr), vec![])
                    } else {
                        MOp::SuspectNode(r.below(rr), r.below(rr))
                    }
                } else if k < 30 {
                    MOp::Round(r.below(rr), vec![])
                } else if k < 42 {
                    MOp::SuspectNode(r.below(rr), r.below(rr))
                } else if r.chance(2, 3) {
                    // recent envelopes more often than old ones; suspicions about the destination itself and
                    // Alive messages preferred (they are what moves incarnations)
                    let nn = c.pool.len() as u64;
                    let pref: Vec<u64> = (0..nn)
                        .filter(|k| match &c.pool[*k as usize] {
                            (d, GossipMessage::Suspect { suspect, .. }) => idx(suspect) == *d,
                            (_, GossipMessage::Alive { .. }) => true,
                            _ => false,
                        })
                        .collect();
                    if !pref.is_empty() && r.chance(1, 2) {
                        MOp::Deliver(*r.pick(&pref))
                    } else {
                        MOp::Deliver(nn - 1 - r.below(nn.min(6)))
                    }
                } else {
                    MOp::Deliver(r.below(c.pool.len() as u64))
                }
            },
        };
        let (op, who) = match choice {
            MOp::Round(m, _) => {
                let before = c.dump(m, rr);
                let clock0 = c.mgrs[m as usize].lamport_time();
                c.rt.block_on(async { c.mgrs[m as usize].gossip_round().await }).unwrap();
                let after = c.dump(m, rr);
                // members this round failed, in the order the clock ticked for them
                let mut newly: Vec<(u64, u64)> = (0..rr)
                    .filter_map(|x| match (before[x as usize], after[x as usize]) {
                        (Some((h0, _, _)), Some((2, t, _))) if h0 != 2 && t > clock0 => Some((t, x)),
                        _ => None,
                    })
                    .collect();
                newly.sort();
                if !newly.is_empty() {
                    failed_seen = true;
                }
                dist.hit("mop.round");
                (MOp::Round(m, newly.iter().map(|(_, x)| *x).collect()), m)
            },
            MOp::SuspectNode(m, x) => {
                c.rt.block_on(async { c.mgrs[m as usize].suspect_node(&name(x)).await }).unwrap();
                dist.hit("mop.suspect_node");
                (MOp::SuspectNode(m, x), m)
            },
            MOp::AddPeer(m, p) => {
                c.mgrs[m as usize].add_peer(name(p));
                dist.hit("mop.add_peer");
                (MOp::AddPeer(m, p), m)
            },
            MOp::Deliver(k) => {
                let (d, msg) = c.pool[k as usize].clone();
                dist.hit(&format!("mop.deliver.{}", ["sync", "suspect", "alive", "pingreq", "pingack", "other"][gmsg_rank(&msg) as usize]));
                let mg = &c.mgrs[d as usize];
                c.rt.block_on(async { mg.handle_gossip(msg) });
                (MOp::Deliver(k), d)
            },
        };
        let new = c.flush();
        if new.iter().any(|(_, g)| matches!(g, GossipMessage::Alive { .. })) {
            alive_seen = true;
        }
        obs.push(format!(
            "({}, {}, {})",
            c.mgrs[who as usize].lamport_time(),
            dump_coq(&c.dump(who, rr)),
            list(new.iter().map(|(d, g)| format!("({d}, {})", gmsg_coq(g))))
        ));
        ops.push(op);
    }
    if failed_seen {
        dist.hit("mgr.case_with_expiry_failure");
    }
    if alive_seen {
        dist.hit("mgr.case_with_self_refutation");
    }
    let term = format!("({rr}, {maxd}, {}, {}, {}, {})", b(expire), b(full), list(ops.iter().map(|o| o.coq())), list(obs));
    (term, format!("R={rr} max_incarnation_delta={maxd} expire={expire} all_peers_known_at_start={full} mops={ops:?}"), failed_seen || alive_seen)
}

/// every permutation of a small set, delivered one by one (exhaustive over orders)
fn permutations<T: Clone>(xs: &[T]) -> Vec<Vec<T>> {
    if xs.len() <= 1 {
        return vec![xs.to_vec()];
    }
    let mut out = vec![];
    for i in 0..xs.len() {
        let mut rest = xs.to_vec();
        let x = rest.remove(i);
        for mut p in permutations(&rest) {
            p.insert(0, x.clone());
            out.push(p);
        }
    }
    out
}

fn main() {
    let args = Args::parse();
    quiet_panics();
    let mut rng = Rng::new(args.seed);
    let mut dist = Dist::default();

    // --- corpus first: the reproduced tie witness and neighbours
    let mut conv = CaseWriter::new(&args.out, "conv");
    {
        let a = Upd { m: 0, h: 0, ts: 5, inc: 1 };
        let bb = Upd { m: 0, h: 2, ts: 5, inc: 1 };
        let b1 = vec![vec![a], vec![bb]];
        let b2 = vec![vec![bb], vec![a]];
        let d1 = dump(&deliver(&b1), 2);
        let d2 = dump(&deliver(&b2), 2);
        conv.push(
            &format!("(2, {}, {}, {}, {})", batches_coq(&b1), batches_coq(&b2), dump_coq(&d1), dump_coq(&d2)),
            "corpus F-C17-tie: (n0,Healthy,ts5,inc1) vs (n0,Failed,ts5,inc1) in both orders",
            true,
        );
        dist.hit("conv.with_tie_conflict");
    }
    // exhaustive orders of small sets: all permutations of 3-4 updates against the identity order
    let nsets = args.budget(12, 200);
    for _ in 0..nsets {
        let mm = rng.range(2, 4);
        let k = rng.range(3, 4) as usize;
        let tight = rng.chance(1, 2);
        let set: Vec<Upd> = (0..k).map(|_| gen_upd(&mut rng, mm, if tight { 2 } else { 6 })).collect();
        let base = vec![set.clone()];
        let dbase = dump(&deliver(&base), mm);
        for p in permutations(&set) {
            let bs: Vec<Vec<Upd>> = p.iter().map(|u| vec![*u]).collect();
            let d = dump(&deliver(&bs), mm);
            let term = format!("({}, {}, {}, {}, {})", mm, batches_coq(&base), batches_coq(&bs), dump_coq(&dbase), dump_coq(&d));
            conv.push(&term, &format!("M={} all-orders set={:?} order={:?}", mm, set, p), true);
            dist.hit("conv.exhaustive_order");
        }
    }
    let nconv = args.budget(300, 20000);
    for _ in 0..nconv {
        let mm = rng.range(2, 4);
        let k = rng.range(1, 8) as usize;
        // small ranges so ties are common (the property text: "ties included")
        let span = *rng.pick(&[2u64, 3, 6, 20]);
        let set: Vec<Upd> = (0..k).map(|_| gen_upd(&mut rng, mm, span)).collect();
        let (t, h, nt) = conv_case(&mut rng, &set, mm, &mut dist);
        conv.push(&t, &h, nt);
    }

    let mut trace = CaseWriter::new(&args.out, "trace");
    let ntrace = args.budget(300, 20000);
    for _ in 0..ntrace {
        let mm = rng.range(2, 4);
        let len = rng.range(1, 14) as usize;
        let span = *rng.pick(&[3u64, 6, 30]);
        let ops: Vec<Op> = (0..len).map(|_| gen_op(&mut rng, mm, span, &mut dist)).collect();
        dist.hit(&format!("trace.len.{}", (len / 5) * 5));
        let (t, h, nt) = trace_case(&ops, mm);
        trace.push(&t, &h, nt);
    }

    let mut global = CaseWriter::new(&args.out, "global");
    let nglobal = args.budget(150, 10000);
    for _ in 0..nglobal {
        let mm = rng.range(2, 4);
        let len = rng.range(4, 24) as usize;
        let (t, h, nt) = global_case(&mut rng, mm, len, &mut dist);
        global.push(&t, &h, nt);
    }

    let mut mgr = CaseWriter::new(&args.out, "mgr");
    {
        // corpus: suspicion -> self-refutation -> Alive accepted; suspicion -> expiry -> Failed; a Sync that carries it on
        let s1 = [MOp::SuspectNode(0, 1), MOp::Deliver(0), MOp::Deliver(2), MOp::Round(0, vec![]), MOp::Deliver(3)];
        let (t, h, nt) = mgr_case(&mut rng, 2, 100, true, true, 0, Some(&s1), &mut dist);
        mgr.push(&t, &format!("corpus self-refutation: {h}"), nt);
        let s2 = [MOp::SuspectNode(0, 1), MOp::SuspectNode(0, 2), MOp::Round(0, vec![]), MOp::Deliver(4), MOp::Deliver(5), MOp::Round(1, vec![]), MOp::Deliver(6)];
        let (t, h, nt) = mgr_case(&mut rng, 3, 100, true, true, 0, Some(&s2), &mut dist);
        mgr.push(&t, &format!("corpus expiry of two suspicions: {h}"), nt);
        // incarnation-delta filter: with max delta 0 an Alive / Sync carrying a raised incarnation is refused
        let s3 = [MOp::SuspectNode(0, 1), MOp::Deliver(0), MOp::Deliver(2), MOp::Round(1, vec![]), MOp::Deliver(3)];
        let (t, h, nt) = mgr_case(&mut rng, 2, 0, false, true, 0, Some(&s3), &mut dist);
        mgr.push(&t, &format!("corpus delta filter: {h}"), nt);
        // a member learned through gossip (at a raised incarnation) and only later registered with add_peer
        let s4 = [MOp::AddPeer(0, 1), MOp::AddPeer(0, 2), MOp::AddPeer(2, 0), MOp::SuspectNode(0, 2), MOp::Deliver(1), MOp::Deliver(4),
                  MOp::Round(0, vec![]), MOp::Deliver(5), MOp::AddPeer(1, 2), MOp::AddPeer(1, 0), MOp::AddPeer(1, 1), MOp::Round(1, vec![]), MOp::Deliver(7)];
        let (t, h, nt) = mgr_case(&mut rng, 3, 100, false, false, 0, Some(&s4), &mut dist);
        mgr.push(&t, &format!("corpus add_peer after gossip: {h}"), nt);
        // the same suspicion about a node reaches it three times: its own incarnation must keep moving forward
        let s5 = [MOp::SuspectNode(0, 1), MOp::Deliver(0), MOp::Deliver(0), MOp::Deliver(2), MOp::Deliver(0), MOp::Deliver(3), MOp::Deliver(4), MOp::Deliver(2)];
        let (t, h, nt) = mgr_case(&mut rng, 2, 100, false, true, 0, Some(&s5), &mut dist);
        mgr.push(&t, &format!("corpus repeated suspicion about self: {h}"), nt);
        // a stale suspicion (older incarnation) starts a timer after the member moved on; expiry must not rewind it
        let s6 = [MOp::SuspectNode(0, 2), MOp::Deliver(1), MOp::Deliver(4), MOp::Deliver(5), MOp::Round(0, vec![]), MOp::Deliver(7), MOp::Deliver(0), MOp::Round(1, vec![]), MOp::Round(1, vec![])];
        let (t, h, nt) = mgr_case(&mut rng, 3, 100, true, true, 0, Some(&s6), &mut dist);
        mgr.push(&t, &format!("corpus stale suspicion then expiry: {h}"), nt);
    }
    let nmgr = args.budget(120, 6000);
    for _ in 0..nmgr {
        let rr = rng.range(2, 4);
        let maxd = *rng.pick(&[100u64, 100, 1, 0]);
        let expire = rng.chance(1, 2);
        let len = rng.range(4, 30) as usize;
        let full = rng.chance(2, 3);
        let (t, h, nt) = mgr_case(&mut rng, rr, maxd, expire, full, len, None, &mut dist);
        mgr.push(&t, &h, nt);
    }

    write_meta(
        &args.out,
        json!({
            "property": "C17", "seed": args.seed, "tier": args.tier,
            "kinds": [conv.summary(), trace.summary(), global.summary(), mgr.summary()],
            "distribution": dist.json(),
            "nontrivial_rule": "conv: update set of >= 2 updates; trace: >= 2 ops with at least one effective call; global: a fail() that took effect occurs; mgr: a suspicion expired into Failed or a manager refuted a suspicion about itself",
        }),
    );
}
