//! C18 correspondence harness: drives the real `GraphEngine` path queries and algorithm library
//! (graph_engine/src/lib.rs, graph_engine/src/algorithms/*.rs) on seeded random multigraphs
//! (<= 24 nodes; self-loops, parallel edges, directed/undirected/mixed, zero/equal/large/missing
//! integer weights, disconnected parts, deletions) and writes the observations as Gallina terms
//! for NV.C18.Run:
//!   bfs   : (graph, filter, [(from, to, find_path result)])            -> check_bfs
//!   wpath : (graph, [(from, to, find_weighted_path result)])           -> check_wpath
//!   allp  : (graph, [(from, to, find_all_paths result)])               -> check_allp
//!   varp  : (graph, config, [(from, to, find_variable_paths result)])  -> check_varp
//!   trav  : (graph, config, [(start, traverse result)])                -> check_trav
//!   astar : (graph, dir, [(from, to, astar_path result)])              -> check_astar
//!   algo  : (graph, scc, wcc, mst, kcore, triangles, biconnected, kcore default cfg) -> check_algo
//!   allw  : (graph, [(from, to, find_all_weighted_paths result)])      -> check_allw
//!   pat   : (graph, config, [(from, to, match_pattern variable-length paths)]) -> check_pat
//! The "current graph" of a case is what the engine's own public reads (all_nodes/all_edges)
//! return after the build script (creations + deletions) ran.
use graph_engine::{
    EdgePattern, NodePattern, PathPattern, Pattern, AStarConfig, AllPathsConfig, BiconnectedConfig, CompareOp, Direction, GraphEngine, GraphError, KCoreConfig,
    MstConfig, PropertyValue, SccConfig, TraversalFilter, TriangleConfig, VariableLengthConfig,
};
use nvh_common::*;
use std::collections::HashMap;

// ------------------------------------------------------------------------------------ graph spec
#[derive(Clone, Debug)]
struct ERec {
    id: u64,
    from: u64,
    to: u64,
    directed: bool,
    ty: u64,
    w: Option<u64>,
    q: Option<u64>,
}
#[derive(Clone, Debug)]
struct Snap {
    nodes: Vec<(u64, Option<u64>)>,
    edges: Vec<ERec>,
}
fn ty_name(t: u64) -> String {
    format!("T{t}")
}
fn pint(p: Option<&PropertyValue>) -> Option<u64> {
    match p {
        Some(PropertyValue::Int(i)) if *i >= 0 => Some(*i as u64),
        _ => None,
    }
}
fn snapshot(e: &GraphEngine) -> Snap {
    let mut nodes: Vec<(u64, Option<u64>)> = e.all_nodes().iter().map(|n| (n.id, pint(n.properties.get("p")))).collect();
    nodes.sort();
    let mut edges: Vec<ERec> = e
        .all_edges()
        .iter()
        .map(|x| ERec {
            id: x.id,
            from: x.from,
            to: x.to,
            directed: x.directed,
            ty: x.edge_type[1..].parse().unwrap_or(99),
            w: pint(x.properties.get("w")),
            q: pint(x.properties.get("q")),
        })
        .collect();
    edges.sort_by_key(|x| x.id);
    Snap { nodes, edges }
}
fn on(x: Option<u64>) -> String {
    opt(x.map(n))
}
impl Snap {
    fn coq(&self) -> String {
        format!(
            "(G {} {})",
            list(self.nodes.iter().map(|(i, p)| format!("({}, {})", i, on(*p)))),
            list(self.edges.iter().map(|e| format!(
                "E {} {} {} {} {} {} {}",
                e.id,
                e.from,
                e.to,
                b(e.directed),
                e.ty,
                on(e.w),
                on(e.q)
            )))
        )
    }
    fn human(&self) -> String {
        format!(
            "nodes={:?} edges=[{}]",
            self.nodes,
            self.edges
                .iter()
                .map(|e| format!(
                    "#{}:{}{}{}:T{}:w{:?}:q{:?}",
                    e.id,
                    e.from,
                    if e.directed { "->" } else { "--" },
                    e.to,
                    e.ty,
                    e.w,
                    e.q
                ))
                .collect::<Vec<_>>()
                .join(" ")
        )
    }
}

/// A build script: what the harness asked the engine to do (kept for the replay text).
#[derive(Clone, Debug)]
enum BOp {
    Node(Option<u64>),
    Edge(u64, u64, bool, u64, Option<u64>, Option<u64>),
    DelEdge(u64),
    DelNode(u64),
}
thread_local! {
    static NODE_SEQ: std::cell::Cell<u64> = const { std::cell::Cell::new(0) };
}

/// every node gets the labels N and n<id> (ids are handed out 1, 2, .. in creation order)
fn build(ops: &[BOp]) -> GraphEngine {
    let e = GraphEngine::new();
    NODE_SEQ.with(|c| c.set(0));
    for o in ops {
        match o {
            BOp::Node(p) => {
                let mut props = HashMap::new();
                if let Some(p) = p {
                    props.insert("p".to_string(), PropertyValue::Int(*p as i64));
                }
                let idx = e.get_all_node_ids().map(|v| v.len()).unwrap_or(0) as u64;
                let _ = idx;
                NODE_SEQ.with(|c| c.set(c.get() + 1));
                let label = format!("n{}", NODE_SEQ.with(|c| c.get()));
                e.create_node_with_labels(vec!["N".to_string(), label], props).unwrap();
            }
            BOp::Edge(f, t, d, ty, w, q) => {
                let mut props = HashMap::new();
                if let Some(w) = w {
                    props.insert("w".to_string(), PropertyValue::Int(*w as i64));
                }
                if let Some(q) = q {
                    props.insert("q".to_string(), PropertyValue::Int(*q as i64));
                }
                let _ = e.create_edge(*f, *t, ty_name(*ty), props, *d);
            }
            BOp::DelEdge(id) => {
                let _ = e.delete_edge(*id);
            }
            BOp::DelNode(id) => {
                let _ = e.delete_node(*id);
            }
        }
    }
    e
}

fn gen_script(r: &mut Rng, dist: &mut Dist, max_n: u64) -> Vec<BOp> {
    let k = r.below(100);
    let nn = if k < 35 {
        r.range(1, 5)
    } else if k < 70 {
        r.range(6, 10)
    } else if k < 88 {
        r.range(11, 16)
    } else {
        r.range(17, 24)
    }
    .min(max_n);
    dist.hit(&format!("graph.nodes.{:02}-{:02}", (nn - 1) / 4 * 4 + 1, (nn - 1) / 4 * 4 + 4));
    let mut ops = vec![];
    for _ in 0..nn {
        ops.push(BOp::Node(if r.chance(1, 6) { None } else { Some(r.below(3)) }));
    }
    let dirmode = r.below(3); // 0 all directed, 1 all undirected, 2 mixed
    dist.hit(["graph.all_directed", "graph.all_undirected", "graph.mixed_direction"][dirmode as usize]);
    let wmode = r.below(6);
    dist.hit(["weights.missing(default 1)", "weights.small", "weights.zero_heavy", "weights.all_equal", "weights.large", "weights.mixed_missing"][wmode as usize]);
    let dens = *r.pick(&[1u64, 2, 3, 5]);
    let m = (nn * dens / 2).max(if nn > 1 { 1 } else { 0 }) + r.below(3);
    let halves = r.chance(1, 4) && nn >= 4; // force disconnected parts
    if halves {
        dist.hit("graph.forced_two_parts");
    }
    let eqw = r.below(4);
    let mut made: Vec<(u64, u64)> = vec![];
    for _ in 0..m {
        let (mut f, mut t);
        if !made.is_empty() && r.chance(1, 6) {
            let (a, bb) = *r.pick(&made);
            if r.chance(1, 2) {
                f = a;
                t = bb;
            } else {
                f = bb;
                t = a;
            }
            dist.hit("edge.parallel");
        } else {
            f = r.range(1, nn);
            t = if r.chance(1, 10) { f } else { r.range(1, nn) };
            if halves {
                let h = nn / 2;
                let side = f <= h;
                if (t <= h) != side {
                    t = if side { r.range(1, h) } else { r.range(h + 1, nn) };
                }
            }
        }
        if f == t {
            dist.hit("edge.self_loop");
        }
        if f > nn {
            f = nn;
        }
        if t > nn {
            t = nn;
        }
        let d = match dirmode {
            0 => true,
            1 => false,
            _ => r.chance(1, 2),
        };
        let w = match wmode {
            0 => None,
            1 => Some(r.below(5)),
            2 => Some(if r.chance(2, 3) { 0 } else { r.range(1, 3) }),
            3 => Some(eqw),
            4 => Some(r.below(1 << 40)),
            _ => {
                if r.chance(1, 3) {
                    None
                } else {
                    Some(r.below(4))
                }
            }
        };
        let q = if r.chance(1, 5) { None } else { Some(r.below(3)) };
        made.push((f, t));
        ops.push(BOp::Edge(f, t, d, r.below(3), w, q));
    }
    if r.chance(1, 3) && m > 0 {
        let k = r.range(1, 3);
        for _ in 0..k {
            ops.push(BOp::DelEdge(r.range(1, m)));
        }
        dist.hit("graph.with_edge_deletions");
    }
    if r.chance(1, 6) && nn > 2 {
        ops.push(BOp::DelNode(r.range(1, nn)));
        dist.hit("graph.with_node_deletion");
    }
    ops
}

// ------------------------------------------------------------------------------------ filters / configs
#[derive(Clone, Debug, Default)]
struct Filt {
    node: Vec<(u64, u64)>,
    edge: Vec<(u64, u64)>,
}
fn cop(o: u64) -> CompareOp {
    match o {
        0 => CompareOp::Eq,
        1 => CompareOp::Ne,
        2 => CompareOp::Lt,
        3 => CompareOp::Le,
        4 => CompareOp::Gt,
        _ => CompareOp::Ge,
    }
}
impl Filt {
    fn real(&self) -> TraversalFilter {
        let mut f = TraversalFilter::new();
        for (o, v) in &self.node {
            f = f.node_where("p", cop(*o), PropertyValue::Int(*v as i64));
        }
        for (o, v) in &self.edge {
            f = f.edge_where("q", cop(*o), PropertyValue::Int(*v as i64));
        }
        f
    }
    fn coq(&self) -> String {
        format!(
            "(F {} {})",
            list(self.node.iter().map(|(o, v)| format!("({o}, {v})"))),
            list(self.edge.iter().map(|(o, v)| format!("({o}, {v})")))
        )
    }
    fn is_empty(&self) -> bool {
        self.node.is_empty() && self.edge.is_empty()
    }
}
fn gen_filt(r: &mut Rng) -> Filt {
    let mut f = Filt::default();
    let k = r.below(4);
    if k == 0 || k == 2 {
        for _ in 0..r.range(1, 2) {
            f.node.push((r.below(6), r.below(3)));
        }
    }
    if k == 1 || k == 2 {
        for _ in 0..r.range(1, 2) {
            f.edge.push((r.below(6), r.below(3)));
        }
    }
    if k == 3 {
        f.node.push((1, r.below(3))); // "p != v": the commonest shape
    }
    f
}
fn dir_of(d: u64) -> Direction {
    match d {
        0 => Direction::Outgoing,
        1 => Direction::Incoming,
        _ => Direction::Both,
    }
}
fn nl(xs: &[u64]) -> String {
    list(xs.iter().map(|x| n(*x)))
}
/// integer-valued f64 -> N literal (weights are integers < 2^41, sums stay exact)
fn fint(x: f64) -> Option<u64> {
    if x.is_finite() && x >= 0.0 && x.fract() == 0.0 && x < 9.0e15 {
        Some(x as u64)
    } else {
        None
    }
}

fn pairs(r: &mut Rng, ids: &[u64], all_if_le: usize, sample: usize, ghost: u64) -> Vec<(u64, u64)> {
    let mut v = vec![];
    if ids.len() <= all_if_le {
        for a in ids {
            for bb in ids {
                v.push((*a, *bb));
            }
        }
    } else {
        for _ in 0..sample {
            v.push((*r.pick(ids), *r.pick(ids)));
        }
    }
    if let Some(a) = ids.first() {
        v.push((ghost, *a));
        v.push((*a, ghost));
    }
    v
}

struct Kinds {
    bfs: CaseWriter,
    wpath: CaseWriter,
    allp: CaseWriter,
    varp: CaseWriter,
    trav: CaseWriter,
    astar: CaseWriter,
    algo: CaseWriter,
    allw: CaseWriter,
    pat: CaseWriter,
}

fn bfs_case(e: &GraphEngine, s: &Snap, f: &Filt, use_none: bool, ps: &[(u64, u64)], tag: &str, k: &mut Kinds, dist: &mut Dist) {
    let rf = f.real();
    let mut items = vec![];
    let mut longest = 0usize;
    for (a, bb) in ps {
        let res = guarded(std::panic::AssertUnwindSafe(|| e.find_path(*a, *bb, if use_none { None } else { Some(&rf) })));
        let t = match res {
            Ok(Ok(p)) => {
                longest = longest.max(p.edges.len());
                dist.hit("bfs.found");
                format!("POk {} {}", nl(&p.nodes), nl(&p.edges))
            }
            Ok(Err(GraphError::PathNotFound)) => {
                dist.hit("bfs.not_found");
                "PNotFound".into()
            }
            Ok(Err(GraphError::NodeNotFound(x))) => {
                dist.hit("bfs.node_not_found");
                format!("PNoNode {x}")
            }
            _ => {
                dist.hit("bfs.other_error_or_panic");
                "PErr".into()
            }
        };
        items.push(format!("({a}, {bb}, {t})"));
    }
    let term = format!("({}, {}, {})", s.coq(), f.coq(), list(items));
    let human = format!("{tag} find_path filter={:?} pairs={} graph: {}", f, ps.len(), s.human());
    k.bfs.push(&term, &human, longest >= 2);
}

fn wpath_case(e: &GraphEngine, s: &Snap, ps: &[(u64, u64)], tag: &str, k: &mut Kinds, dist: &mut Dist) {
    let mut items = vec![];
    let mut longest = 0usize;
    for (a, bb) in ps {
        let res = guarded(std::panic::AssertUnwindSafe(|| e.find_weighted_path(*a, *bb, "w")));
        let t = match res {
            Ok(Ok(p)) => match fint(p.total_weight) {
                Some(tw) => {
                    longest = longest.max(p.edges.len());
                    dist.hit("wpath.found");
                    format!("WOk {} {} {}", nl(&p.nodes), nl(&p.edges), tw)
                }
                None => "WErr".into(),
            },
            Ok(Err(GraphError::PathNotFound)) => {
                dist.hit("wpath.not_found");
                "WNotFound".into()
            }
            Ok(Err(GraphError::NodeNotFound(x))) => format!("WNoNode {x}"),
            _ => {
                dist.hit("wpath.other_error_or_panic");
                "WErr".into()
            }
        };
        items.push(format!("({a}, {bb}, {t})"));
    }
    let term = format!("({}, {})", s.coq(), list(items));
    let human = format!("{tag} find_weighted_path(prop w) pairs={} graph: {}", ps.len(), s.human());
    k.wpath.push(&term, &human, longest >= 2);
}

fn paths_coq(ps: &[(Vec<u64>, Vec<u64>)]) -> String {
    list(ps.iter().map(|(a, bb)| format!("({}, {})", nl(a), nl(bb))))
}

fn allp_case(e: &GraphEngine, s: &Snap, ps: &[(u64, u64)], tag: &str, k: &mut Kinds, dist: &mut Dist) {
    let mut items = vec![];
    let mut multi = false;
    for (a, bb) in ps {
        let res = guarded(std::panic::AssertUnwindSafe(|| e.find_all_paths(*a, *bb, Some(AllPathsConfig { max_paths: 1000, max_parents_per_node: 100 }))));
        let t = match res {
            Ok(Ok(p)) => {
                if p.paths.len() > 400 {
                    dist.hit("allp.skipped_large");
                    continue;
                }
                multi |= p.paths.len() >= 2;
                dist.hit("allp.found");
                let v: Vec<(Vec<u64>, Vec<u64>)> = p.paths.iter().map(|x| (x.nodes.clone(), x.edges.clone())).collect();
                format!("AOk {} {}", p.hop_count, paths_coq(&v))
            }
            Ok(Err(GraphError::PathNotFound)) => {
                dist.hit("allp.not_found");
                "ANotFound".into()
            }
            Ok(Err(GraphError::NodeNotFound(x))) => format!("ANoNode {x}"),
            _ => "AErr".into(),
        };
        items.push(format!("({a}, {bb}, {t})"));
    }
    let term = format!("({}, {})", s.coq(), list(items));
    let human = format!("{tag} find_all_paths pairs={} graph: {}", ps.len(), s.human());
    k.allp.push(&term, &human, multi);
}

#[derive(Clone, Debug)]
struct VCfg {
    min: u64,
    max: u64,
    dir: u64,
    types: Option<Vec<u64>>,
    max_paths: u64,
    cycles: bool,
    filt: Option<Filt>,
}
impl VCfg {
    fn real(&self) -> VariableLengthConfig {
        let mut c = VariableLengthConfig::with_hops(self.min as usize, self.max as usize).direction(dir_of(self.dir)).max_paths(self.max_paths as usize).allow_cycles(self.cycles);
        if let Some(ts) = &self.types {
            let names: Vec<String> = ts.iter().map(|t| ty_name(*t)).collect();
            let refs: Vec<&str> = names.iter().map(|x| x.as_str()).collect();
            c = c.edge_types(&refs);
        }
        if let Some(f) = &self.filt {
            c = c.with_filter(f.real());
        }
        c
    }
    fn coq(&self) -> String {
        format!(
            "(VC {} {} {} {} {} {} {})",
            self.min,
            self.max,
            self.dir,
            opt(self.types.as_ref().map(|t| nl(t))),
            self.max_paths,
            b(self.cycles),
            opt(self.filt.as_ref().map(|f| f.coq()))
        )
    }
}
fn gen_vcfg(r: &mut Rng, big: bool) -> VCfg {
    let min = r.below(3);
    let max = (min + r.below(3)).min(if big { 3 } else { 4 });
    VCfg {
        min: min.min(max),
        max,
        dir: r.below(3),
        types: if r.chance(1, 3) { Some((0..r.range(1, 2)).map(|_| r.below(3)).collect()) } else { None },
        max_paths: if r.chance(1, 8) { r.range(1, 5) } else { 1000 },
        cycles: r.chance(1, 5),
        filt: if r.chance(1, 3) { Some(gen_filt(r)) } else { None },
    }
}

fn varp_case(e: &GraphEngine, s: &Snap, c: &VCfg, ps: &[(u64, u64)], tag: &str, k: &mut Kinds, dist: &mut Dist) {
    let mut items = vec![];
    let mut some = false;
    for (a, bb) in ps {
        let res = guarded(std::panic::AssertUnwindSafe(|| e.find_variable_paths(*a, *bb, c.real())));
        let t = match res {
            Ok(Ok(p)) => {
                if p.paths.len() > 300 {
                    dist.hit("varp.skipped_large");
                    continue;
                }
                some |= p.paths.iter().any(|x| x.edges.len() >= 2);
                dist.hit(if p.paths.is_empty() { "varp.no_paths" } else { "varp.some_paths" });
                let v: Vec<(Vec<u64>, Vec<u64>)> = p.paths.iter().map(|x| (x.nodes.clone(), x.edges.clone())).collect();
                format!("VOk {}", paths_coq(&v))
            }
            Ok(Err(GraphError::NodeNotFound(x))) => format!("VNoNode {x}"),
            _ => "VErr".into(),
        };
        items.push(format!("({a}, {bb}, {t})"));
    }
    let term = format!("({}, {}, {})", s.coq(), c.coq(), list(items));
    let human = format!("{tag} find_variable_paths cfg={:?} pairs={} graph: {}", c, ps.len(), s.human());
    k.varp.push(&term, &human, some);
}

fn trav_case(e: &GraphEngine, s: &Snap, dir: u64, depth: u64, ty: Option<u64>, f: &Option<Filt>, starts: &[u64], tag: &str, k: &mut Kinds, dist: &mut Dist) {
    let rf = f.as_ref().map(|x| x.real());
    let tn = ty.map(ty_name);
    let mut items = vec![];
    let mut deep = false;
    for a in starts {
        let res = guarded(std::panic::AssertUnwindSafe(|| e.traverse(*a, dir_of(dir), depth as usize, tn.as_deref(), rf.as_ref())));
        let t = match res {
            Ok(Ok(ns)) => {
                let mut ids: Vec<u64> = ns.iter().map(|x| x.id).collect();
                let first_is_start = ids.first() == Some(a);
                ids.sort();
                deep |= ids.len() >= 3;
                dist.hit("trav.ok");
                format!("TOk {} {}", b(first_is_start), nl(&ids))
            }
            Ok(Err(GraphError::NodeNotFound(x))) => format!("TNoNode {x}"),
            _ => "TErr".into(),
        };
        items.push(format!("({a}, {t})"));
    }
    let term = format!("({}, ({}, {}, {}, {}), {})", s.coq(), dir, depth, on(ty), opt(f.as_ref().map(|x| x.coq())), list(items));
    let human = format!("{tag} traverse dir={dir} depth={depth} type={:?} filter={:?} starts={} graph: {}", ty, f, starts.len(), s.human());
    k.trav.push(&term, &human, deep);
}

/// true weighted distances (Floyd-Warshall over the snapshot) for an admissible, consistent heuristic
fn true_dists(s: &Snap, dir: u64) -> HashMap<(u64, u64), f64> {
    let ids: Vec<u64> = s.nodes.iter().map(|x| x.0).collect();
    let mut d: HashMap<(u64, u64), f64> = HashMap::new();
    for a in &ids {
        d.insert((*a, *a), 0.0);
    }
    let relax = |d: &mut HashMap<(u64, u64), f64>, a: u64, b: u64, w: f64| {
        let cur = d.get(&(a, b)).copied().unwrap_or(f64::INFINITY);
        if w < cur {
            d.insert((a, b), w);
        }
    };
    for e in &s.edges {
        let w = e.w.unwrap_or(1) as f64;
        let fwd = dir == 0 || dir == 2;
        let bwd = dir == 1 || dir == 2;
        if fwd || !e.directed {
            relax(&mut d, e.from, e.to, w);
        }
        if bwd || !e.directed {
            relax(&mut d, e.to, e.from, w);
        }
    }
    for k in &ids {
        for a in &ids {
            for b in &ids {
                if let (Some(x), Some(y)) = (d.get(&(*a, *k)).copied(), d.get(&(*k, *b)).copied()) {
                    relax(&mut d, *a, *b, x + y);
                }
            }
        }
    }
    d
}

/// variant 0: zero heuristic (the result passed in); 1: half the true remaining distance (admissible and
/// consistent); 2: astar_path_euclidean on nodes without coordinates (heuristic 0, outgoing, default weights
/// are not used here: only called when every edge has weight property... see caller)
fn astar_variant(e: &GraphEngine, s: &Snap, dir: u64, a: u64, b: u64, variant: u64, zero: Result<graph_engine::Result<graph_engine::AStarResult>, String>) -> Result<graph_engine::Result<graph_engine::AStarResult>, String> {
    if variant == 1 {
        let d = true_dists(s, dir);
        let h: graph_engine::HeuristicFn = Box::new(move |cur, target, _| d.get(&(cur, target)).copied().map_or(0.0, |x| x * 0.5));
        let cfg = AStarConfig::new().weight_property("w").default_weight(1.0).direction(dir_of(dir)).heuristic(h);
        guarded(std::panic::AssertUnwindSafe(|| e.astar_path(a, b, &cfg)))
    } else {
        zero
    }
}

fn astar_case(e: &GraphEngine, s: &Snap, dir: u64, ps: &[(u64, u64)], tag: &str, k: &mut Kinds, dist: &mut Dist) {
    astar_case_v(e, s, dir, 0, ps, tag, k, dist)
}

fn astar_case_v(e: &GraphEngine, s: &Snap, dir: u64, variant: u64, ps: &[(u64, u64)], tag: &str, k: &mut Kinds, dist: &mut Dist) {
    let mut items = vec![];
    let mut longest = 0usize;
    for (a, bb) in ps {
        let cfg = AStarConfig::new().weight_property("w").default_weight(1.0).direction(dir_of(dir));
        let res = guarded(std::panic::AssertUnwindSafe(|| e.astar_path(*a, *bb, &cfg)));
        let _ = &res;
        let res = astar_variant(e, s, dir, *a, *bb, variant, res);
        let t = match res {
            Ok(Ok(r)) => match r.path {
                Some(p) => match fint(p.total_weight) {
                    Some(tw) => {
                        longest = longest.max(p.edges.len());
                        dist.hit("astar.found");
                        format!("WOk {} {} {}", nl(&p.nodes), nl(&p.edges), tw)
                    }
                    None => "WErr".into(),
                },
                None => {
                    dist.hit("astar.not_found");
                    "WNotFound".into()
                }
            },
            _ => "WErr".into(),
        };
        items.push(format!("({a}, {bb}, {t})"));
    }
    let term = format!("({}, {}, {})", s.coq(), dir, list(items));
    let human = format!("{tag} astar_path({}, prop w) dir={dir} pairs={} graph: {}", if variant == 1 { "heuristic = half the true remaining distance" } else { "zero heuristic" }, ps.len(), s.human());
    k.astar.push(&term, &human, longest >= 2);
}

/// find_all_weighted_paths(prop w): every returned path with its own total, and the reported total
/// Returns false when a query did not answer within 5 s (recorded as XErr, i.e. an oracle failure with
/// this concrete input); the caller then stops issuing further queries of this kind because the stuck
/// thread cannot be killed and keeps allocating.
fn allw_case(e: &std::sync::Arc<GraphEngine>, s: &Snap, ps: &[(u64, u64)], tag: &str, k: &mut Kinds, dist: &mut Dist) -> bool {
    let mut items = vec![];
    let mut multi = false;
    let mut alive = true;
    for (a, bb) in ps {
        let (tx, rx) = std::sync::mpsc::channel();
        let (e2, a2, b2) = (e.clone(), *a, *bb);
        std::thread::spawn(move || {
            let r = guarded(std::panic::AssertUnwindSafe(|| e2.find_all_weighted_paths(a2, b2, "w", Some(AllPathsConfig { max_paths: 1000, max_parents_per_node: 100 }))));
            let _ = tx.send(r);
        });
        let res = match rx.recv_timeout(std::time::Duration::from_secs(5)) {
            Ok(r) => r,
            Err(_) => {
                dist.hit("allw.no_answer_within_5s");
                items.push(format!("({a}, {bb}, XErr)"));
                alive = false;
                break;
            }
        };
        let t = match res {
            Ok(Ok(p)) => {
                if p.paths.len() > 300 {
                    dist.hit("allw.skipped_large");
                    continue;
                }
                multi |= p.paths.len() >= 2;
                dist.hit("allw.found");
                let per: Option<Vec<String>> = p.paths.iter().map(|x| fint(x.total_weight).map(|tw| format!("({}, {}, {})", nl(&x.nodes), nl(&x.edges), tw))).collect();
                match (per, fint(p.total_weight)) {
                    (Some(per), Some(tw)) => format!("XOk {} {}", tw, list(per)),
                    _ => "XErr".into(),
                }
            }
            Ok(Err(GraphError::PathNotFound)) => {
                dist.hit("allw.not_found");
                "XNotFound".into()
            }
            Ok(Err(GraphError::NodeNotFound(x))) => format!("XNoNode {x}"),
            _ => "XErr".into(),
        };
        items.push(format!("({a}, {bb}, {t})"));
    }
    let term = format!("({}, {})", s.coq(), list(items));
    let human = format!("{tag} find_all_weighted_paths(prop w) pairs={}{} graph: {}", ps.len(), if alive { "" } else { " (LAST PAIR DID NOT ANSWER WITHIN 5 s)" }, s.human());
    k.allw.push(&term, &human, multi);
    alive
}

/// small weighted graphs for find_all_weighted_paths: heavy direct edges next to light detours (a
/// node is first reached expensively and later cheaply), equal-weight alternatives, parallel edges
fn gen_weighted_small(r: &mut Rng) -> Vec<BOp> {
    let nn = r.range(3, 7);
    let mut ops: Vec<BOp> = (0..nn).map(|_| BOp::Node(Some(0))).collect();
    let dirmode = r.below(3);
    let positive = r.chance(1, 2);
    let m = r.range(nn, 2 * nn + 2);
    for _ in 0..m {
        let f = r.range(1, nn);
        let t = r.range(1, nn);
        let d = match dirmode { 0 => true, 1 => false, _ => r.chance(1, 2) };
        let w = match r.below(4) {
            0 => r.range(5, 12),                       // heavy
            1 => if positive { 1 } else { r.below(2) }, // light (maybe zero)
            2 => 2,
            _ => r.range(1, 3),
        };
        ops.push(BOp::Edge(f, t, d, 0, Some(w), None));
    }
    // a light chain 1 -> 2 -> .. -> nn and a heavy shortcut 1 -> nn
    for i in 1..nn {
        if r.chance(2, 3) {
            ops.push(BOp::Edge(i, i + 1, dirmode != 1, 0, Some(1), None));
        }
    }
    ops.push(BOp::Edge(1, nn, dirmode != 1, 0, Some(r.range(2, 12)), None));
    ops
}

/// variable-length PATTERN match: (n<from>)-[p:*min..max, type?, direction]->(n<to>), paths bound to p
fn pat_case(e: &GraphEngine, s: &Snap, c: &VCfg, ps: &[(u64, u64)], tag: &str, k: &mut Kinds, dist: &mut Dist) {
    let mut items = vec![];
    let mut some = false;
    for (a, bb) in ps {
        let mut ep = EdgePattern::new().variable("p").variable_length(c.min as usize, c.max as usize).direction(dir_of(c.dir));
        if let Some(ts) = &c.types {
            ep = ep.edge_type(&ty_name(ts[0]));
        }
        let pattern = Pattern::new(PathPattern::new(NodePattern::new().label(&format!("n{a}")), ep, NodePattern::new().label(&format!("n{bb}")))).limit(100_000);
        let res = guarded(std::panic::AssertUnwindSafe(|| e.match_pattern(&pattern)));
        let t = match res {
            Ok(Ok(r)) => {
                let v: Vec<(Vec<u64>, Vec<u64>)> = r.matches.iter().filter_map(|m| m.get_path("p").map(|x| (x.nodes.clone(), x.edges.clone()))).collect();
                if v.len() != r.matches.len() || v.len() > 300 {
                    dist.hit("pat.skipped");
                    continue;
                }
                some |= v.iter().any(|x| x.1.len() >= 2);
                dist.hit(if v.is_empty() { "pat.no_paths" } else { "pat.some_paths" });
                format!("VOk {}", paths_coq(&v))
            }
            _ => "VErr".into(),
        };
        items.push(format!("({a}, {bb}, {t})"));
    }
    let term = format!("({}, {}, {})", s.coq(), c.coq(), list(items));
    let human = format!("{tag} match_pattern (n<from>)-[*{}..{} dir={} types={:?}]->(n<to>) pairs={} graph: {}", c.min, c.max, c.dir, c.types, ps.len(), s.human());
    k.pat.push(&term, &human, some);
}

fn pairs_coq(v: &[(u64, u64)]) -> String {
    list(v.iter().map(|(a, bb)| format!("({a}, {bb})")))
}

fn algo_case(e: &GraphEngine, s: &Snap, tag: &str, k: &mut Kinds, dist: &mut Dist) {
    // strongly connected components (Tarjan)
    let scc = guarded(std::panic::AssertUnwindSafe(|| e.strongly_connected_components(&SccConfig::new())));
    let scc_t = match scc {
        Ok(Ok(r)) => {
            let mut ms: Vec<Vec<u64>> = r.members.iter().map(|m| { let mut m = m.clone(); m.sort(); m }).collect();
            ms.sort();
            let consistent = r.component_count == r.members.len()
                && r.members.iter().enumerate().all(|(i, m)| m.iter().all(|x| r.components.get(x) == Some(&i)))
                && r.components.len() == r.members.iter().map(|m| m.len()).sum::<usize>();
            format!("(Some ({}, {}))", list(ms.iter().map(|m| nl(m))), b(consistent))
        }
        _ => "None".into(),
    };
    // weakly connected components (union-find)
    let wcc = guarded(std::panic::AssertUnwindSafe(|| e.connected_components(None)));
    let wcc_t = match wcc {
        Ok(Ok(r)) => {
            let mut ms: Vec<Vec<u64>> = r.members.values().map(|m| { let mut m = m.clone(); m.sort(); m }).collect();
            ms.sort();
            let consistent = r.community_count == r.members.len() && r.members.iter().all(|(root, m)| m.iter().all(|x| r.communities.get(x) == Some(root)));
            format!("(Some ({}, {}))", list(ms.iter().map(|m| nl(m))), b(consistent))
        }
        _ => "None".into(),
    };
    // minimum spanning forest (Kruskal)
    let mst = guarded(std::panic::AssertUnwindSafe(|| e.minimum_spanning_tree(&MstConfig::new("w"))));
    let mst_t = match mst {
        Ok(Ok(r)) => {
            let es: Option<Vec<String>> = r.edges.iter().map(|m| fint(m.weight).map(|w| format!("({}, {}, {}, {})", m.edge_id, m.from, m.to, w))).collect();
            let mut ns = r.nodes.clone();
            ns.sort();
            match (es, fint(r.total_weight)) {
                (Some(es), Some(tw)) => format!("(Some ({}, {}, {}, {}))", list(es), tw, r.tree_count, nl(&ns)),
                _ => "None".into(),
            }
        }
        _ => "None".into(),
    };
    // k-core decomposition: core numbers, degeneracy (both entry points), the `cores` grouping, and
    // kcore_subgraph(k) (= get_kcore) for every k from 0 to the number of nodes; once with
    // .undirected() and once with the DEFAULT config (k-core is defined on the undirected graph
    // either way: "K-core always uses undirected degree")
    let kcore_term = |kcfg: &KCoreConfig, dist: &mut Dist| -> String {
        let kc = guarded(std::panic::AssertUnwindSafe(|| e.kcore_decomposition(kcfg)));
        match kc {
            Ok(Ok(r)) => {
                let mut v: Vec<(u64, u64)> = r.core_numbers.iter().map(|(a, c)| (*a, *c as u64)).collect();
                v.sort();
                let mut grouped_ok = r.cores.values().map(|m| m.len()).sum::<usize>() == r.core_numbers.len();
                for (c, members) in &r.cores {
                    grouped_ok &= members.iter().all(|m| r.core_numbers.get(m) == Some(c));
                }
                let deg2 = e.degeneracy(kcfg).map(|d| d as u64).unwrap_or(u64::MAX);
                let mut per_k = vec![];
                for kk in 0..=(s.nodes.len() as u64) {
                    let mut sub = e.kcore_subgraph(kk as usize, kcfg).unwrap_or_else(|_| vec![u64::MAX]);
                    sub.sort();
                    let mut shell = r.shell(kk as usize);
                    shell.sort();
                    per_k.push(format!("({}, {}, {})", kk, nl(&sub), nl(&shell)));
                }
                if r.degeneracy >= 2 {
                    dist.hit("algo.graph_with_degeneracy_ge_2");
                }
                format!("(Some ({}, {}, {}, {}, {}))", pairs_coq(&v), r.degeneracy, deg2, b(grouped_ok), list(per_k))
            }
            _ => "None".into(),
        }
    };
    let kc_t = kcore_term(&KCoreConfig::new().undirected(), dist);
    let kcd_t = kcore_term(&KCoreConfig::new(), dist);
    // triangles (undirected reading)
    let tr = guarded(std::panic::AssertUnwindSafe(|| e.count_triangles(&TriangleConfig::new().undirected())));
    let tr_t = match tr {
        Ok(Ok(r)) => {
            let mut v: Vec<(u64, u64)> = r.node_triangles.iter().map(|(a, c)| (*a, *c as u64)).collect();
            v.sort();
            if r.triangle_count > 0 {
                dist.hit("algo.graph_with_triangles");
            }
            format!("(Some ({}, {}))", r.triangle_count, pairs_coq(&v))
        }
        _ => "None".into(),
    };
    // biconnected components / articulation points / bridges
    let bc = guarded(std::panic::AssertUnwindSafe(|| e.biconnected_components(&BiconnectedConfig::new())));
    let bc_t = match bc {
        Ok(Ok(r)) => {
            let mut aps = r.articulation_points.clone();
            aps.sort();
            let mut br = r.bridges.clone();
            br.sort();
            let mut cs: Vec<Vec<(u64, u64)>> = r.components.iter().map(|c| { let mut v: Vec<(u64, u64)> = c.iter().copied().collect(); v.sort(); v }).collect();
            cs.sort();
            if !aps.is_empty() {
                dist.hit("algo.graph_with_articulation_points");
            }
            format!("(Some ({}, {}, {}))", nl(&aps), pairs_coq(&br), list(cs.iter().map(|c| pairs_coq(c))))
        }
        _ => "None".into(),
    };
    let term = format!("({}, {}, {}, {}, {}, {}, {}, {})", s.coq(), scc_t, wcc_t, mst_t, kc_t, tr_t, bc_t, kcd_t);
    let human = format!("{tag} algorithms(scc,wcc,mst,kcore,triangles,biconnected) graph: {}", s.human());
    k.algo.push(&term, &human, s.edges.len() >= 3);
}

/// only the algorithm library (cheap): used for the many small structured graphs
fn run_algo_only(ops: &[BOp], tag: &str, k: &mut Kinds, dist: &mut Dist) {
    let e = build(ops);
    let s = snapshot(&e);
    algo_case(&e, &s, &format!("{tag} script={:?};", ops), k, dist);
}

fn und(f: u64, t: u64) -> BOp {
    BOp::Edge(f, t, false, 0, Some(1), None)
}

/// Small graphs (6-12 nodes, a few up to 16) that separate peeling / DFS orders: dense cores
/// (cliques, near-cliques) whose edges are subdivided by low-degree nodes, pendant leaves and
/// trees hanging off core and subdivision nodes, cliques joined by paths, stars on cliques,
/// extra random chords, parallel edges, self-loops; direction and weights randomised.
fn gen_structured(r: &mut Rng, dist: &mut Dist) -> Vec<BOp> {
    let mut edges: Vec<(u64, u64)> = vec![];
    let mut n: u64 = 0;
    let clique = |edges: &mut Vec<(u64, u64)>, n: &mut u64, size: u64| -> Vec<u64> {
        let ids: Vec<u64> = (1..=size).map(|i| *n + i).collect();
        *n += size;
        for i in 0..ids.len() {
            for j in i + 1..ids.len() {
                edges.push((ids[i], ids[j]));
            }
        }
        ids
    };
    let family = r.below(5);
    dist.hit(["algo.family.subdivided_core_with_pendants", "algo.family.cliques_joined_by_path", "algo.family.star_on_clique", "algo.family.two_cores_shared_node", "algo.family.random_dense_small"][family as usize]);
    let mut cores: Vec<Vec<u64>> = vec![];
    match family {
        0 => {
            cores.push(clique(&mut edges, &mut n, r.range(3, 5)));
        }
        1 => {
            let a = clique(&mut edges, &mut n, r.range(3, 4));
            let bb = clique(&mut edges, &mut n, r.range(3, 4));
            let mut prev = *r.pick(&a);
            for _ in 0..r.range(0, 3) {
                n += 1;
                edges.push((prev, n));
                prev = n;
            }
            edges.push((prev, *r.pick(&bb)));
            cores.push(a);
            cores.push(bb);
        }
        2 => {
            let a = clique(&mut edges, &mut n, r.range(3, 5));
            let hub = *r.pick(&a);
            for _ in 0..r.range(2, 5) {
                n += 1;
                edges.push((hub, n));
            }
            cores.push(a);
        }
        3 => {
            let a = clique(&mut edges, &mut n, r.range(3, 4));
            let size = r.range(3, 4);
            let shared = *r.pick(&a);
            let mut bb = vec![shared];
            for _ in 1..size {
                n += 1;
                bb.push(n);
            }
            for i in 0..bb.len() {
                for j in i + 1..bb.len() {
                    edges.push((bb[i], bb[j]));
                }
            }
            cores.push(a);
            cores.push(bb);
        }
        _ => {
            n = r.range(5, 9);
            for i in 1..=n {
                for j in i + 1..=n {
                    if r.chance(1, 2) {
                        edges.push((i, j));
                    }
                }
            }
        }
    }
    // subdivide some core edges; the subdividing node may carry pendant leaves (inflated degree)
    let nsub = r.below(4);
    for _ in 0..nsub {
        if edges.is_empty() {
            break;
        }
        let i = r.below(edges.len() as u64) as usize;
        let (a, bb) = edges.remove(i);
        n += 1;
        let u = n;
        edges.push((a, u));
        edges.push((u, bb));
        for _ in 0..r.below(4) {
            n += 1;
            edges.push((u, n));
        }
    }
    // pendant leaves / short trees on random nodes
    for _ in 0..r.below(4) {
        if n == 0 {
            break;
        }
        let mut at = r.range(1, n);
        for _ in 0..r.range(1, 2) {
            n += 1;
            edges.push((at, n));
            at = n;
        }
    }
    // a few random chords, parallel edges and self-loops
    for _ in 0..r.below(3) {
        if n >= 2 {
            edges.push((r.range(1, n), r.range(1, n)));
        }
    }
    if r.chance(1, 4) && !edges.is_empty() {
        let (a, bb) = *r.pick(&edges);
        edges.push((bb, a));
    }
    r.shuffle(&mut edges);
    if r.chance(1, 3) {
        n += r.range(1, 2); // isolated nodes
    }
    let dirmode = r.below(3);
    let mut ops: Vec<BOp> = (0..n).map(|_| BOp::Node(Some(0))).collect();
    for (a, bb) in edges {
        let d = match dirmode {
            0 => false,
            1 => true,
            _ => r.chance(1, 2),
        };
        let (f, t) = if r.chance(1, 2) { (a, bb) } else { (bb, a) };
        ops.push(BOp::Edge(f, t, d, r.below(2), if r.chance(1, 4) { None } else { Some(r.below(4)) }, None));
    }
    let _ = cores;
    ops
}

fn run_graph(r: &mut Rng, ops: &[BOp], tag: &str, k: &mut Kinds, dist: &mut Dist, light: bool) {
    let e = build(ops);
    let s = snapshot(&e);
    let ids: Vec<u64> = s.nodes.iter().map(|x| x.0).collect();
    let ghost = ids.iter().max().copied().unwrap_or(0) + 5;
    let tagg = format!("{tag} script={:?};", ops);
    // find_path: no filter (None), every pair
    let ps = pairs(r, &ids, 24, 0, ghost);
    bfs_case(&e, &s, &Filt::default(), true, &ps, &tagg, k, dist);
    dist.hit("bfs.filter.none");
    // find_path with a random filter
    let f = gen_filt(r);
    let ps = pairs(r, &ids, 12, 80, ghost);
    bfs_case(&e, &s, &f, false, &ps, &tagg, k, dist);
    dist.hit(if f.is_empty() { "bfs.filter.empty" } else if f.node.is_empty() { "bfs.filter.edge_only" } else if f.edge.is_empty() { "bfs.filter.node_only" } else { "bfs.filter.node_and_edge" });
    // weighted
    let ps = pairs(r, &ids, 16, 120, ghost);
    wpath_case(&e, &s, &ps, &tagg, k, dist);
    // all shortest paths
    let ps = pairs(r, &ids, 8, 40, ghost);
    allp_case(&e, &s, &ps, &tagg, k, dist);
    // variable-length
    let big = s.edges.len() > 20;
    for _ in 0..(if light { 1 } else { 2 }) {
        let c = gen_vcfg(r, big);
        let ps = pairs(r, &ids, 6, 25, ghost);
        dist.hit(&format!("varp.hops.{}..{}", c.min, c.max));
        varp_case(&e, &s, &c, &ps, &tagg, k, dist);
    }
    // variable-length pattern matching (existing nodes only; no filter, no cycles, one edge type at most)
    {
        let mut c = gen_vcfg(r, big);
        c.cycles = false;
        c.filt = None;
        c.max_paths = 100_000;
        if let Some(ts) = &mut c.types {
            ts.truncate(1);
        }
        let mut ps = pairs(r, &ids, 6, 25, ghost);
        ps.retain(|(a, bb)| ids.contains(a) && ids.contains(bb));
        dist.hit(&format!("pat.hops.{}..{}", c.min, c.max));
        pat_case(&e, &s, &c, &ps, &tagg, k, dist);
    }
    // traverse
    for _ in 0..(if light { 1 } else { 2 }) {
        let dir = r.below(3);
        let depth = r.below(5);
        let ty = if r.chance(1, 3) { Some(r.below(3)) } else { None };
        let f = if r.chance(1, 3) { Some(gen_filt(r)) } else { None };
        let mut starts = ids.clone();
        starts.push(ghost);
        dist.hit(&format!("trav.depth.{depth}"));
        trav_case(&e, &s, dir, depth, ty, &f, &starts, &tagg, k, dist);
    }
    // A*
    let ps = pairs(r, &ids, 10, 60, ghost);
    astar_case(&e, &s, r.below(3), &ps, &tagg, k, dist);
    // algorithm library
    algo_case(&e, &s, &tagg, k, dist);
}

fn main() {
    let args = Args::parse();
    quiet_panics();
    let mut rng = Rng::new(args.seed);
    let mut dist = Dist::default();
    let mut k = Kinds {
        bfs: CaseWriter::new(&args.out, "bfs"),
        wpath: CaseWriter::new(&args.out, "wpath"),
        allp: CaseWriter::new(&args.out, "allp"),
        varp: CaseWriter::new(&args.out, "varp"),
        trav: CaseWriter::new(&args.out, "trav"),
        astar: CaseWriter::new(&args.out, "astar"),
        algo: CaseWriter::new(&args.out, "algo"),
        allw: CaseWriter::new(&args.out, "allw"),
        pat: CaseWriter::new(&args.out, "pat"),
    };

    // --- corpus first -------------------------------------------------------------------------
    let corpus: Vec<(&str, Vec<BOp>)> = vec![
        // F-C18-dir: directed A->B, find_path(B, A)
        ("corpus F-C18-dir", vec![BOp::Node(Some(0)), BOp::Node(Some(0)), BOp::Edge(1, 2, true, 0, None, None)]),
        // directed chain with one back edge far away: reverse query must go the long way round
        ("corpus directed-cycle", vec![BOp::Node(Some(0)), BOp::Node(Some(1)), BOp::Node(Some(2)), BOp::Node(None),
            BOp::Edge(1, 2, true, 0, Some(1), Some(0)), BOp::Edge(2, 3, true, 0, Some(1), Some(1)), BOp::Edge(3, 4, true, 1, Some(1), Some(2)), BOp::Edge(4, 1, true, 0, Some(1), None)]),
        // parallel edges with different weights + zero weights + self loops, mixed direction
        ("corpus parallel-weights", vec![BOp::Node(Some(0)), BOp::Node(Some(1)), BOp::Node(Some(2)),
            BOp::Edge(1, 2, true, 0, Some(5), Some(0)), BOp::Edge(1, 2, true, 0, Some(2), Some(1)), BOp::Edge(2, 3, false, 1, Some(0), Some(0)),
            BOp::Edge(3, 3, false, 0, Some(0), None), BOp::Edge(1, 1, true, 0, Some(1), None), BOp::Edge(3, 1, true, 2, None, Some(2))]),
        // triangle whose lowest-id corner has the highest degree
        ("corpus triangle-hub", vec![BOp::Node(Some(0)), BOp::Node(Some(0)), BOp::Node(Some(0)), BOp::Node(Some(0)), BOp::Node(Some(0)),
            BOp::Edge(1, 2, false, 0, Some(1), None), BOp::Edge(2, 3, false, 0, Some(1), None), BOp::Edge(1, 3, false, 0, Some(1), None),
            BOp::Edge(1, 4, false, 0, Some(1), None), BOp::Edge(1, 5, false, 0, Some(1), None)]),
        // two disconnected single edges (biconnected components of a disconnected graph)
        ("corpus two-parts", vec![BOp::Node(Some(0)), BOp::Node(Some(0)), BOp::Node(Some(0)), BOp::Node(Some(0)),
            BOp::Edge(1, 2, false, 0, Some(1), None), BOp::Edge(3, 4, false, 0, Some(2), None)]),
    ];
    for (tag, ops) in &corpus {
        run_graph(&mut rng, ops, tag, &mut k, &mut dist, false);
    }
    // algorithm-library corpus: graphs on which peeling / DFS orders matter
    let algo_corpus: Vec<(&str, Vec<(u64, u64)>, u64)> = vec![
        // K4 on 1..4 with edge 1-2 subdivided by 5; 5 also carries the leaves 6 and 7 (all cores 2 except leaves)
        ("corpus kcore K4-subdivided-with-leaves", vec![(1, 3), (1, 4), (2, 3), (2, 4), (3, 4), (1, 5), (5, 2), (5, 6), (5, 7)], 7),
        // K5 with two subdivided edges, one subdivider with three leaves
        ("corpus kcore K5-two-subdivisions", vec![(1, 3), (1, 4), (1, 5), (2, 3), (2, 4), (2, 5), (3, 5), (4, 5), (1, 6), (6, 2), (3, 7), (7, 4), (6, 8), (6, 9), (6, 10)], 10),
        // two triangles joined by a path, a star on one corner
        ("corpus cliques-joined-by-path", vec![(1, 2), (2, 3), (1, 3), (3, 4), (4, 5), (5, 6), (6, 7), (5, 7), (1, 8), (1, 9), (1, 10)], 10),
        // K4 whose DFS meets back edges that do not lower low[u]; plus a pendant
        ("corpus K4-plus-pendant", vec![(1, 2), (1, 3), (1, 4), (2, 3), (2, 4), (3, 4), (4, 5)], 5),
    ];
    for (tag, es, nn) in &algo_corpus {
        for directed in [false, true] {
            let mut ops: Vec<BOp> = (0..*nn).map(|_| BOp::Node(Some(0))).collect();
            for (a, bb) in es {
                ops.push(BOp::Edge(*a, *bb, directed, 0, Some(1), None));
            }
            run_algo_only(&ops, tag, &mut k, &mut dist);
        }
    }
    let _ = und;
    let nstructured = args.budget(150, 6000);
    for i in 0..nstructured {
        let ops = gen_structured(&mut rng, &mut dist);
        run_algo_only(&ops, &format!("structured#{i}"), &mut k, &mut dist);
    }

    // --- all minimum-weight paths --------------------------------------------------------------
    {
        // corpus: a->c (10), a->b (1), b->c (1): c is first reached at cost 10, later at cost 2
        let mut corp: Vec<Vec<BOp>> = vec![
            vec![BOp::Node(Some(0)), BOp::Node(Some(0)), BOp::Node(Some(0)),
                 BOp::Edge(1, 3, true, 0, Some(10), None), BOp::Edge(1, 2, true, 0, Some(1), None), BOp::Edge(2, 3, true, 0, Some(1), None)],
            // the same undirected, plus an equal-weight alternative and a parallel edge
            vec![BOp::Node(Some(0)), BOp::Node(Some(0)), BOp::Node(Some(0)), BOp::Node(Some(0)),
                 BOp::Edge(1, 3, false, 0, Some(10), None), BOp::Edge(1, 2, false, 0, Some(1), None), BOp::Edge(2, 3, false, 0, Some(1), None),
                 BOp::Edge(1, 4, true, 0, Some(1), None), BOp::Edge(4, 3, true, 0, Some(1), None), BOp::Edge(2, 3, true, 0, Some(1), None)],
        ];
        for _ in 0..args.budget(50, 2000) {
            corp.push(gen_weighted_small(&mut rng));
        }
        // corpus: S=1 X=2 Y=3 T=4: S->X 10, S->Y 1, Y->X 1, X->T 1, S->T 5 (optimum S,Y,X,T = 3: X is queued
        // expensively, improved while queued, and a competing direct edge lies in between)
        corp.insert(0, vec![BOp::Node(Some(0)), BOp::Node(Some(0)), BOp::Node(Some(0)), BOp::Node(Some(0)),
            BOp::Edge(1, 2, true, 0, Some(10), None), BOp::Edge(1, 3, true, 0, Some(1), None), BOp::Edge(3, 2, true, 0, Some(1), None),
            BOp::Edge(2, 4, true, 0, Some(1), None), BOp::Edge(1, 4, true, 0, Some(5), None)]);
        // corpus: a->b created before a->c, then c->b (and the other creation order): (a)-[*2..2]->(b)
        corp.insert(0, vec![BOp::Node(Some(0)), BOp::Node(Some(0)), BOp::Node(Some(0)),
            BOp::Edge(1, 2, true, 0, Some(1), None), BOp::Edge(1, 3, true, 0, Some(1), None), BOp::Edge(3, 2, true, 0, Some(1), None)]);
        corp.insert(0, vec![BOp::Node(Some(0)), BOp::Node(Some(0)), BOp::Node(Some(0)),
            BOp::Edge(1, 3, true, 0, Some(1), None), BOp::Edge(1, 2, true, 0, Some(1), None), BOp::Edge(3, 2, true, 0, Some(1), None)]);
        // corpus: the zero-weight edge walked both ways (hung before fix 23f86df7)
        corp.insert(0, vec![BOp::Node(Some(0)), BOp::Node(Some(0)), BOp::Node(Some(0)),
            BOp::Edge(1, 2, true, 0, Some(1), None), BOp::Edge(2, 3, false, 0, Some(0), None)]);
        for (i, ops) in corp.iter().enumerate() {
            let e = std::sync::Arc::new(build(ops));
            let s = snapshot(&e);
            let ids: Vec<u64> = s.nodes.iter().map(|x| x.0).collect();
            let ps = pairs(&mut rng, &ids, 7, 0, 99);
            let tagw = format!("weighted#{i} script={:?};", ops);
            let real: Vec<(u64, u64)> = ps.iter().copied().filter(|(a, bb)| ids.contains(a) && ids.contains(bb)).collect();
            for (dir, variant) in [(0u64, 0u64), (0, 1), (rng.range(1, 2), rng.below(2))] {
                astar_case_v(&e, &s, dir, variant, &real, &tagw, &mut k, &mut dist);
                dist.hit(if variant == 1 { "astar.weighted_family.half_true_distance_heuristic" } else { "astar.weighted_family.zero_heuristic" });
            }
            for (mn, mx) in [(2u64, 2u64), (1, 3)] {
                let c = VCfg { min: mn, max: mx, dir: 0, types: None, max_paths: 100_000, cycles: false, filt: None };
                pat_case(&e, &s, &c, &real, &tagw, &mut k, &mut dist);
            }
            if !allw_case(&e, &s, &ps, &tagw, &mut k, &mut dist) {
                break;
            }
        }
    }

    // --- seeded random multigraphs ------------------------------------------------------------
    let ngraphs = args.budget(60, 1500);
    for i in 0..ngraphs {
        let ops = gen_script(&mut rng, &mut dist, 24);
        run_graph(&mut rng, &ops, &format!("graph#{i}"), &mut k, &mut dist, !args.thorough());
    }

    write_meta(
        &args.out,
        json!({
            "property": "C18", "seed": args.seed, "tier": args.tier,
            "kinds": [k.bfs.summary(), k.wpath.summary(), k.allp.summary(), k.varp.summary(), k.trav.summary(), k.astar.summary(), k.algo.summary(), k.allw.summary(), k.pat.summary()],
            "distribution": dist.json(),
            "nontrivial_rule": "bfs/wpath/astar: some returned path has >= 2 hops; allp: some pair has >= 2 shortest paths; varp: some returned path has >= 2 hops; trav: some traversal returns >= 3 nodes; algo: graph has >= 3 edges",
        }),
    );
}
