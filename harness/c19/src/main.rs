//! C19 correspondence harness: drives the real async `tensor_blob::BlobStore` on a tokio runtime.
//! Case kinds (Gallina terms for NV.C19.Run):
//!   trace  : (cs, min_age, hash table, ops, observations)          -> check_trace
//!   damage : (cs, min_age, hash table, ops, adump, damage, verifies) -> check_damage
//! plus an implementation-only concurrency stress (2-4 tasks) whose verdicts are evaluated at
//! quiescence (reported through `hits`).
//!
//! Time: gc_cycle compares `_created` (wall-clock seconds) with now - min_age.  The harness keeps a
//! logical clock; "advance by d seconds" is performed by subtracting d from every chunk's
//! `_created` (equivalent to moving the clock forward, for everything the property observes).
//! All distances are multiples of 1000 s against a min_age of 1500 s, so real elapsed time (a few
//! seconds at most) can never change a decision.
use nvh_common::*;
use std::collections::HashMap;
use std::sync::Arc;
use std::time::{Duration, SystemTime, UNIX_EPOCH};
use tensor_blob::{compute_hash, BlobConfig, BlobError, BlobStore, BlobWriter, PutOptions};
use tensor_store::{ScalarValue, TensorStore, TensorValue};

const MIN_AGE: u64 = 1500;
const BASE_CLOCK: u64 = 1_000_000;

fn now_secs() -> u64 {
    SystemTime::now().duration_since(UNIX_EPOCH).map(|d| d.as_secs()).unwrap_or(0)
}

fn err_code(e: &BlobError) -> u64 {
    match e {
        BlobError::NotFound(_) => 1,
        BlobError::ChunkMissing(_) => 2,
        BlobError::EmptyData => 3,
        _ => 7,
    }
}

#[derive(Clone, Debug, PartialEq)]
enum Out {
    Unit,
    Id(u64),
    Err(u64),
    Bytes(Vec<u8>),
    Bool(bool),
    Nums(Vec<u64>),
}
impl Out {
    fn coq(&self) -> String {
        match self {
            Out::Unit => "RUnit".into(),
            Out::Id(i) => format!("(RId {i})"),
            Out::Err(e) => format!("(RErr {e})"),
            Out::Bytes(d) => format!("(RBytes {})", bytes(d)),
            Out::Bool(x) => format!("(RBool {})", b(*x)),
            Out::Nums(v) => format!("(RNums {})", list(v.iter().map(|x| n(*x)))),
        }
    }
}

#[derive(Clone, Debug)]
enum Op {
    Put(Vec<u8>),
    Open,
    Write(u64, Vec<u8>),
    Finish(u64),
    Delete(u64),
    Get(u64),
    Exists(u64),
    Gc,
    FullGc,
    Verify(u64),
    Repair,
    Advance(u64),
    Stats,
}

fn int_field(t: &tensor_store::TensorData, f: &str) -> i64 {
    match t.get(f) {
        Some(TensorValue::Scalar(ScalarValue::Int(i))) => *i,
        _ => -1,
    }
}

struct Env {
    rt: tokio::runtime::Runtime,
    blob: BlobStore,
    store: TensorStore,
    cs: usize,
    ids: Vec<String>,
    writers: HashMap<u64, BlobWriter>,
    /// model of what the chunker hashes, only to fill the digest table: (buffer, all bytes)
    wbufs: HashMap<u64, (Vec<u8>, Vec<u8>)>,
    digest_ids: HashMap<String, u64>,
    tbl: Vec<(Vec<u8>, u64)>,
    tbl_seen: HashMap<Vec<u8>, u64>,
    lclock: u64,
}

impl Env {
    fn new(cs: usize) -> Env {
        Self::with_batch(cs, 1_000_000)
    }
    fn with_batch(cs: usize, batch: usize) -> Env {
        let rt = tokio::runtime::Builder::new_current_thread().enable_all().build().unwrap();
        let store = TensorStore::new();
        let config = BlobConfig::new()
            .with_chunk_size(cs)
            .with_gc_min_age(Duration::from_secs(MIN_AGE))
            .with_gc_batch_size(batch);
        let blob = rt.block_on(BlobStore::new(store.clone(), config)).unwrap();
        Env {
            rt,
            blob,
            store,
            cs,
            ids: vec![],
            writers: HashMap::new(),
            wbufs: HashMap::new(),
            digest_ids: HashMap::new(),
            tbl: vec![],
            tbl_seen: HashMap::new(),
            lclock: BASE_CLOCK,
        }
    }

    /// digest id of a byte string (real SHA-256 through the crate's own compute_hash)
    fn hid(&mut self, data: &[u8]) -> u64 {
        if let Some(i) = self.tbl_seen.get(data) {
            return *i;
        }
        let h = compute_hash(data);
        let next = self.digest_ids.len() as u64 + 1;
        let id = *self.digest_ids.entry(h).or_insert(next);
        self.tbl.push((data.to_vec(), id));
        self.tbl_seen.insert(data.to_vec(), id);
        id
    }
    fn digest_id_of(&mut self, digest: &str, data: Option<&[u8]>) -> u64 {
        if let Some(i) = self.digest_ids.get(digest) {
            return *i;
        }
        match data {
            Some(d) => {
                // a chunk whose key the harness did not predict: table entry by its content
                let _ = self.hid(d);
                let next = self.digest_ids.len() as u64 + 1;
                *self.digest_ids.entry(digest.to_string()).or_insert(next)
            }
            None => 0,
        }
    }
    fn small_id(&self, s: &str) -> u64 {
        self.ids.iter().position(|x| x == s).map(|p| p as u64).unwrap_or(9999)
    }

    /// what the chunker will hash when `d` is appended to writer `w`'s stream
    fn note_write(&mut self, w: u64, d: &[u8]) {
        let (mut buf, mut all) = self.wbufs.remove(&w).unwrap_or_default();
        buf.extend_from_slice(d);
        all.extend_from_slice(d);
        while buf.len() >= self.cs {
            let piece: Vec<u8> = buf.drain(..self.cs).collect();
            self.hid(&piece);
        }
        self.wbufs.insert(w, (buf, all));
    }
    fn note_finish(&mut self, w: u64) {
        let (buf, all) = self.wbufs.remove(&w).unwrap_or_default();
        if !buf.is_empty() {
            self.hid(&buf);
        }
        self.hid(&all);
    }

    fn apply(&mut self, op: &Op) -> Out {
        match op {
            Op::Put(d) => match self.rt.block_on(self.blob.put("f", d, PutOptions::default())) {
                Ok(id) => {
                    let k = self.ids.len() as u64;
                    self.ids.push(id);
                    self.note_write(k, d);
                    self.note_finish(k);
                    Out::Id(k)
                }
                Err(e) => Out::Err(err_code(&e)),
            },
            Op::Open => {
                let w = self.rt.block_on(self.blob.writer("f", PutOptions::default())).unwrap();
                let k = self.ids.len() as u64;
                // the artifact id becomes known at finish(); reserve the slot now
                self.ids.push(format!("<open {k}>"));
                self.writers.insert(k, w);
                self.wbufs.insert(k, (vec![], vec![]));
                Out::Id(k)
            }
            Op::Write(w, d) => {
                self.note_write(*w, d);
                let wr = self.writers.get_mut(w).unwrap();
                match self.rt.block_on(wr.write(d)) {
                    Ok(()) => Out::Unit,
                    Err(e) => Out::Err(err_code(&e)),
                }
            }
            Op::Finish(w) => {
                self.note_finish(*w);
                let wr = self.writers.remove(w).unwrap();
                match self.rt.block_on(wr.finish()) {
                    Ok(id) => {
                        self.ids[*w as usize] = id;
                        Out::Id(*w)
                    }
                    Err(e) => Out::Err(err_code(&e)),
                }
            }
            Op::Delete(i) => match self.rt.block_on(self.blob.delete(&self.ids[*i as usize])) {
                Ok(()) => Out::Unit,
                Err(e) => Out::Err(err_code(&e)),
            },
            Op::Get(i) => self.get(*i),
            Op::Exists(i) => Out::Bool(self.rt.block_on(self.blob.exists(&self.ids[*i as usize])).unwrap()),
            Op::Gc => {
                let s = self.rt.block_on(self.blob.gc()).unwrap();
                Out::Nums(vec![s.deleted as u64, s.freed_bytes as u64])
            }
            Op::FullGc => match self.rt.block_on(self.blob.full_gc()) {
                Ok(s) => Out::Nums(vec![s.deleted as u64, s.freed_bytes as u64]),
                Err(e) => Out::Err(err_code(&e)),
            },
            Op::Verify(i) => self.verify(*i),
            Op::Repair => match self.blob.repair() {
                Ok(s) => Out::Nums(vec![
                    s.artifacts_checked as u64,
                    s.chunks_verified as u64,
                    s.refs_fixed as u64,
                    s.orphans_deleted as u64,
                ]),
                Err(e) => Out::Err(err_code(&e)),
            },
            Op::Advance(d) => {
                for key in self.store.scan("_blob:chunk:") {
                    if let Ok(mut t) = self.store.get(&key) {
                        let c = int_field(&t, "_created");
                        t.set("_created", TensorValue::Scalar(ScalarValue::Int(c - *d as i64)));
                        self.store.put(&key, t).unwrap();
                    }
                }
                self.lclock += d;
                Out::Unit
            }
            Op::Stats => {
                let s = self.rt.block_on(self.blob.stats()).unwrap();
                Out::Nums(vec![
                    s.artifact_count as u64,
                    s.chunk_count as u64,
                    s.total_bytes as u64,
                    s.unique_bytes as u64,
                    s.orphaned_chunks as u64,
                ])
            }
        }
    }
    fn get(&self, i: u64) -> Out {
        match self.rt.block_on(self.blob.get(&self.ids[i as usize])) {
            Ok(d) => Out::Bytes(d),
            Err(e) => Out::Err(err_code(&e)),
        }
    }
    fn verify(&self, i: u64) -> Out {
        match self.blob.verify(&self.ids[i as usize]) {
            Ok(x) => Out::Bool(x),
            Err(e) => Out::Err(err_code(&e)),
        }
    }

    /// chunk table, canonical: sorted by digest id; (key, data, refs, logical created)
    fn cdump(&mut self) -> Vec<(u64, Vec<u8>, u64, u64)> {
        let mut v = vec![];
        let now = now_secs() as i64;
        for key in self.store.scan("_blob:chunk:") {
            if let Ok(t) = self.store.get(&key) {
                let data = match t.get("_data") {
                    Some(TensorValue::Scalar(ScalarValue::Bytes(x))) => x.clone(),
                    _ => vec![],
                };
                let digest = key.strip_prefix("_blob:chunk:").unwrap_or(&key).to_string();
                let k = self.digest_id_of(&digest, Some(&data));
                let refs = int_field(&t, "_refs").max(0) as u64;
                let created = int_field(&t, "_created");
                let age = ((now - created + 500).max(0) / 1000) as u64 * 1000;
                v.push((k, data, refs, self.lclock.saturating_sub(age)));
            }
        }
        v.sort();
        v
    }
    /// artifact records, canonical: sorted by small id; (id, chunk keys, size, checksum id)
    fn adump(&mut self) -> Vec<(u64, Vec<u64>, u64, u64)> {
        let mut v = vec![];
        for key in self.store.scan("_blob:meta:") {
            if let Ok(t) = self.store.get(&key) {
                let id = self.small_id(key.strip_prefix("_blob:meta:").unwrap_or(&key));
                let ks: Vec<String> = match t.get("_chunks") {
                    Some(TensorValue::Pointers(p)) => p.clone(),
                    _ => vec![],
                };
                let ks: Vec<u64> = ks
                    .iter()
                    .map(|k| {
                        let d = k.strip_prefix("_blob:chunk:").unwrap_or(k).to_string();
                        self.digest_id_of(&d, None)
                    })
                    .collect();
                let size = int_field(&t, "_size").max(0) as u64;
                let sum = match t.get("_checksum") {
                    Some(TensorValue::Scalar(ScalarValue::String(s))) => s.clone(),
                    _ => String::new(),
                };
                let sum = self.digest_id_of(&sum, None);
                v.push((id, ks, size, sum));
            }
        }
        v.sort();
        v
    }
}

fn cdump_coq(d: &[(u64, Vec<u8>, u64, u64)]) -> String {
    list(d.iter().map(|(k, dat, r, c)| format!("({k}, {}, {r}, {c})", bytes(dat))))
}
fn adump_coq(d: &[(u64, Vec<u64>, u64, u64)]) -> String {
    list(d.iter().map(|(i, ks, sz, sm)| format!("({i}, {}, {sz}, {sm})", list(ks.iter().map(|x| n(*x))))))
}
fn tbl_coq(t: &[(Vec<u8>, u64)]) -> String {
    list(t.iter().map(|(d, i)| format!("({}, {i})", bytes(d))))
}

fn op_coq(op: &Op, examined: &[u64]) -> String {
    match op {
        Op::Put(d) => format!("OPut {}", bytes(d)),
        Op::Open => "OOpen".into(),
        Op::Write(w, d) => format!("OWrite {w} {}", bytes(d)),
        Op::Finish(w) => format!("OFinish {w}"),
        Op::Delete(i) => format!("ODelete {i}"),
        Op::Get(i) => format!("OGet {i}"),
        Op::Exists(i) => format!("OExists {i}"),
        Op::Gc => format!("OGc {}", list(examined.iter().map(|x| n(*x)))),
        Op::FullGc => "OFullGc".into(),
        Op::Verify(i) => format!("OVerify {i}"),
        Op::Repair => "ORepair".into(),
        Op::Advance(d) => format!("OAdvance {d}"),
        Op::Stats => "OStats".into(),
    }
}

/// Run `ops` on a fresh store; returns (env, coq ops, coq observations, whether any artifact shared
/// a chunk with another / any chunk was collected)
fn run_trace(cs: usize, ops: &[Op]) -> (Env, Vec<String>, Vec<String>, bool) {
    run_trace_batch(cs, 1_000_000, ops)
}

/// `batch` = gc_batch_size.  With a batch smaller than the store the keys gc_cycle examines are the
/// first `batch` keys of a HashMap scan (not observable): the model is then given the keys that
/// actually disappeared as the examined ones (it must agree that each of them was collectable, and on
/// the statistics), and the harness checks that no more than `batch` disappeared.
fn run_trace_batch(cs: usize, batch: usize, ops: &[Op]) -> (Env, Vec<String>, Vec<String>, bool) {
    let mut env = Env::with_batch(cs, batch);
    let mut cops = vec![];
    let mut cobs = vec![];
    let mut interesting = false;
    for op in ops {
        let before: Vec<u64> = env.cdump().iter().map(|e| e.0).collect();
        let r = env.apply(op);
        let cd = env.cdump();
        let ad = env.adump();
        if cd.iter().any(|e| e.2 >= 2) || cd.len() < before.len() {
            interesting = true;
        }
        let reads: Vec<String> = (0..env.ids.len() as u64)
            .map(|i| format!("({i}, {}, {})", env.get(i).coq(), env.verify(i).coq()))
            .collect();
        let examined: Vec<u64> = if batch < 1_000_000 && matches!(op, Op::Gc) {
            let gone: Vec<u64> = before.iter().copied().filter(|k| !cd.iter().any(|e| e.0 == *k)).collect();
            assert!(gone.len() <= batch, "gc_cycle removed {} chunks with batch_size {}", gone.len(), batch);
            gone
        } else {
            before.clone()
        };
        cops.push(op_coq(op, &examined));
        cobs.push(format!("({}, {}, {}, {})", r.coq(), cdump_coq(&cd), adump_coq(&ad), list(reads)));
    }
    (env, cops, cobs, interesting)
}

fn trace_term(cs: usize, env: &Env, cops: &[String], cobs: &[String]) -> String {
    format!(
        "({}, {}, {}, {}, {})",
        cs,
        MIN_AGE,
        tbl_coq(&env.tbl),
        list(cops.iter().cloned()),
        list(cobs.iter().cloned())
    )
}

// ------------------------------------------------------------------------------------ generators

/// content with heavy overlap: tiny alphabet, runs, and a shared pool of pieces
fn gen_bytes(r: &mut Rng, len: usize, pool: &[Vec<u8>]) -> Vec<u8> {
    let mode = r.below(4);
    let mut v = Vec::with_capacity(len);
    match mode {
        0 => {
            let c = r.below(2) as u8;
            v.resize(len, c);
        }
        1 => {
            while v.len() < len {
                let p: &Vec<u8> = r.pick(pool);
                v.extend_from_slice(p);
            }
            v.truncate(len);
        }
        2 => {
            for _ in 0..len {
                v.push(r.below(2) as u8);
            }
        }
        _ => {
            for _ in 0..len {
                v.push(r.below(4) as u8);
            }
        }
    }
    v
}
fn gen_len(r: &mut Rng, cs: usize, dist: &mut Dist) -> usize {
    let k = r.below(10);
    let (len, tag) = match k {
        0 => (0, "len.0"),
        1 => (1, "len.1"),
        2 => (cs.saturating_sub(1), "len.cs-1"),
        3 => (cs, "len.cs"),
        4 => (cs + 1, "len.cs+1"),
        5 => (2 * cs, "len.2cs"),
        6 => (2 * cs + 1, "len.2cs+1"),
        7 => (3 * cs - 1, "len.3cs-1"),
        8 => (cs * r.range(3, 6) as usize + r.below(cs as u64) as usize, "len.many"),
        _ => (r.below((3 * cs) as u64 + 1) as usize, "len.random"),
    };
    dist.hit(tag);
    len
}
/// cut `d` into stream writes at random points (empty writes included)
fn partition(r: &mut Rng, d: &[u8]) -> Vec<Vec<u8>> {
    let mut out = vec![];
    let mut cur = vec![];
    for x in d {
        cur.push(*x);
        if r.chance(1, 3) {
            out.push(std::mem::take(&mut cur));
            if r.chance(1, 8) {
                out.push(vec![]);
            }
        }
    }
    if !cur.is_empty() || r.chance(1, 4) {
        out.push(cur);
    }
    out
}

struct GenState {
    next: u64,
    open: Vec<u64>,
    finished: Vec<u64>,
}

fn gen_ops(r: &mut Rng, cs: usize, len: usize, dist: &mut Dist) -> Vec<Op> {
    let pool: Vec<Vec<u8>> = (0..3).map(|_| (0..cs).map(|_| r.below(2) as u8).collect()).collect();
    let mut g = GenState { next: 0, open: vec![], finished: vec![] };
    let mut ops = vec![];
    while ops.len() < len {
        let k = r.below(100);
        let any = |r: &mut Rng, g: &GenState| if g.next == 0 { 0 } else { r.below(g.next) };
        if k < 22 {
            let l = gen_len(r, cs, dist);
            ops.push(Op::Put(gen_bytes(r, l, &pool)));
            if l > 0 {
                g.finished.push(g.next);
                g.next += 1;
            }
            dist.hit("op.put");
        } else if k < 30 {
            ops.push(Op::Open);
            g.open.push(g.next);
            g.next += 1;
            dist.hit("op.open");
        } else if k < 46 {
            if let Some(&w) = g.open.get(r.below(g.open.len().max(1) as u64) as usize) {
                let l = gen_len(r, cs, dist);
                ops.push(Op::Write(w, gen_bytes(r, l, &pool)));
                dist.hit("op.write");
            }
        } else if k < 54 {
            if !g.open.is_empty() {
                let i = r.below(g.open.len() as u64) as usize;
                let w = g.open.remove(i);
                ops.push(Op::Finish(w));
                g.finished.push(w);
                dist.hit("op.finish");
            }
        } else if k < 66 {
            if g.next > 0 {
                // mostly finished artifacts; sometimes an id that does not exist (yet / any more)
                let id = if !g.finished.is_empty() && r.chance(5, 6) { *r.pick(&g.finished) } else { any(r, &g) };
                ops.push(Op::Delete(id));
                dist.hit("op.delete");
            }
        } else if k < 72 {
            if g.next > 0 {
                ops.push(Op::Get(any(r, &g)));
                dist.hit("op.get");
            }
        } else if k < 75 {
            if g.next > 0 {
                ops.push(Op::Exists(any(r, &g)));
                dist.hit("op.exists");
            }
        } else if k < 82 {
            ops.push(Op::Gc);
            dist.hit("op.gc");
        } else if k < 87 {
            ops.push(Op::FullGc);
            dist.hit("op.full_gc");
        } else if k < 90 {
            if g.next > 0 {
                ops.push(Op::Verify(any(r, &g)));
                dist.hit("op.verify");
            }
        } else if k < 94 {
            ops.push(Op::Repair);
            dist.hit("op.repair");
        } else if k < 98 {
            ops.push(Op::Advance(1000 * r.range(1, 3)));
            dist.hit("op.advance");
        } else {
            ops.push(Op::Stats);
            dist.hit("op.stats");
        }
    }
    ops
}

/// one streamed artifact of a boundary size under a random partition, then get
fn gen_stream_ops(r: &mut Rng, cs: usize, len: usize) -> Vec<Op> {
    let pool = vec![vec![0u8; cs], vec![1u8; cs]];
    let d = gen_bytes(r, len, &pool);
    let mut ops = vec![Op::Open];
    for w in partition(r, &d) {
        ops.push(Op::Write(0, w));
    }
    ops.push(Op::Finish(0));
    ops.push(Op::Get(0));
    if len > 0 {
        ops.push(Op::Put(d));
        ops.push(Op::Delete(0));
        ops.push(Op::Get(1));
        ops.push(Op::Delete(1));
        ops.push(Op::FullGc);
    }
    ops
}

// ------------------------------------------------------------------------------------ stress

/// 2-4 concurrent tasks put/delete/collect overlapping content on one store (multi-thread runtime).
/// Verdict at quiescence (deterministic given the final state): every artifact that exists reads
/// back the bytes written for it and verifies.
fn stress_round(seed: u64, tasks: usize, steps: usize, with_full_gc: bool) -> Option<String> {
    let rt = tokio::runtime::Builder::new_multi_thread().worker_threads(4).enable_all().build().unwrap();
    let cs = 4usize;
    let store = TensorStore::new();
    let config = BlobConfig::new().with_chunk_size(cs).with_gc_min_age(Duration::from_secs(0)).with_gc_batch_size(1_000_000);
    let blob = Arc::new(rt.block_on(BlobStore::new(store.clone(), config)).unwrap());
    let pool: Vec<Vec<u8>> = vec![vec![0u8; 8], vec![1u8; 8], vec![0, 0, 0, 0, 1, 1, 1, 1], vec![0u8; 12]];
    let mut handles = vec![];
    for t in 0..tasks {
        let blob = blob.clone();
        let pool = pool.clone();
        let mut r = Rng::new(seed.wrapping_mul(1000).wrapping_add(t as u64));
        handles.push(rt.spawn(async move {
            let mut mine: Vec<(String, Vec<u8>)> = vec![];
            for _ in 0..steps {
                let k = r.below(100);
                if k < 45 {
                    let d = r.pick(&pool).clone();
                    if r.chance(1, 2) {
                        if let Ok(id) = blob.put("f", &d, PutOptions::default()).await {
                            mine.push((id, d));
                        }
                    } else if let Ok(mut w) = blob.writer("f", PutOptions::default()).await {
                        let cut = r.below(d.len() as u64 + 1) as usize;
                        let _ = w.write(&d[..cut]).await;
                        tokio::task::yield_now().await;
                        let _ = w.write(&d[cut..]).await;
                        if let Ok(id) = w.finish().await {
                            mine.push((id, d));
                        }
                    }
                } else if k < 85 {
                    if !mine.is_empty() {
                        let i = r.below(mine.len() as u64) as usize;
                        let (id, _) = mine.swap_remove(i);
                        let _ = blob.delete(&id).await;
                    }
                } else if k < 95 || !with_full_gc {
                    let _ = blob.gc().await;
                } else {
                    let _ = blob.full_gc().await;
                }
                if r.chance(1, 4) {
                    tokio::task::yield_now().await;
                }
            }
            mine
        }));
    }
    let mut live = vec![];
    for h in handles {
        live.extend(rt.block_on(h).unwrap());
    }
    for (id, d) in &live {
        match rt.block_on(blob.get(id)) {
            Ok(x) if &x == d => {}
            Ok(x) => return Some(format!("artifact reads back {:?} instead of {:?}", x, d)),
            Err(e) => return Some(format!("artifact written as {:?} unreadable at quiescence: {e}", d)),
        }
        match blob.verify(id) {
            Ok(true) => {}
            other => return Some(format!("artifact written as {:?} does not verify at quiescence: {:?}", d, other.map_err(|e| e.to_string()))),
        }
    }
    // every artifact gone -> a full collection leaves nothing
    for (id, _) in &live {
        let _ = rt.block_on(blob.delete(id));
    }
    let _ = rt.block_on(blob.full_gc());
    let left = store.scan("_blob:chunk:").len();
    if left != 0 {
        return Some(format!("{left} chunk(s) left after deleting every artifact and a full collection"));
    }
    None
}


/// Barrier stress for the unlocked reference counters: `threads` OS threads put the SAME fresh
/// content at the same moment (released by a barrier), `reps` times.  Then, for every content, all
/// artifacts but one are deleted, every chunk is aged and gc runs: the surviving artifact must
/// still read back (a lost increment shows up as a collected live chunk).
fn barrier_round(seed: u64, threads: usize, reps: usize) -> Option<String> {
    use std::sync::Barrier;
    let cs = 4usize;
    let store = TensorStore::new();
    let config = BlobConfig::new().with_chunk_size(cs).with_gc_min_age(Duration::from_secs(MIN_AGE)).with_gc_batch_size(1_000_000);
    let rt0 = tokio::runtime::Builder::new_current_thread().enable_all().build().unwrap();
    let blob = Arc::new(rt0.block_on(BlobStore::new(store.clone(), config)).unwrap());
    let barrier = Arc::new(Barrier::new(threads));
    let mut handles = vec![];
    for t in 0..threads {
        let blob = blob.clone();
        let barrier = barrier.clone();
        handles.push(std::thread::spawn(move || {
            let rt = tokio::runtime::Builder::new_current_thread().enable_all().build().unwrap();
            let mut ids = vec![];
            for r in 0..reps {
                // two chunks, the same for every thread in this repetition, fresh per repetition
                let x = (seed as u8).wrapping_add(r as u8);
                let d: Vec<u8> = vec![x, (r >> 8) as u8, 1, 2, x, (r >> 8) as u8, 3, 4];
                barrier.wait();
                let id = if t % 2 == 0 {
                    rt.block_on(blob.put("f", &d, PutOptions::default())).ok()
                } else {
                    rt.block_on(async {
                        let mut w = blob.writer("f", PutOptions::default()).await.ok()?;
                        w.write(&d).await.ok()?;
                        w.finish().await.ok()
                    })
                };
                ids.push((id, d));
            }
            ids
        }));
    }
    let per_thread: Vec<Vec<(Option<String>, Vec<u8>)>> = handles.into_iter().map(|h| h.join().unwrap()).collect();
    // keep thread 0's artifact of every repetition, delete the others
    for other in per_thread.iter().skip(1) {
        for (id, _) in other {
            if let Some(id) = id {
                let _ = rt0.block_on(blob.delete(id));
            }
        }
    }
    for key in store.scan("_blob:chunk:") {
        if let Ok(mut t) = store.get(&key) {
            t.set("_created", TensorValue::Scalar(ScalarValue::Int(0)));
            store.put(&key, t).unwrap();
        }
    }
    let _ = rt0.block_on(blob.gc());
    for (id, d) in &per_thread[0] {
        let Some(id) = id else { return Some("put failed".into()) };
        match rt0.block_on(blob.get(id)) {
            Ok(x) if &x == d => {}
            Ok(x) => return Some(format!("surviving artifact reads back {:?} instead of {:?}", x, d)),
            Err(e) => {
                return Some(format!(
                    "{threads} threads stored {:?} at the same moment; the other artifacts were deleted, chunks aged, gc run; the surviving artifact is unreadable: {e}",
                    d
                ))
            }
        }
    }
    None
}

/// Concurrent deletes of the SAME artifact while a twin shares all its chunks: `threads` OS threads
/// call delete(A) at the same moment (barrier).  Exactly one may succeed.  Then every chunk is aged
/// and gc runs: the twin B must still read back and verify (a double decrement shows up as a
/// collected live chunk).  Verdict at quiescence.
fn double_delete_round(seed: u64, threads: usize, nchunks: usize) -> Option<String> {
    use std::sync::Barrier;
    let cs = 4usize;
    let store = TensorStore::new();
    let config = BlobConfig::new().with_chunk_size(cs).with_gc_min_age(Duration::from_secs(MIN_AGE)).with_gc_batch_size(1_000_000);
    let rt0 = tokio::runtime::Builder::new_current_thread().enable_all().build().unwrap();
    let blob = Arc::new(rt0.block_on(BlobStore::new(store.clone(), config)).unwrap());
    // nchunks distinct chunks
    let mut d = Vec::with_capacity(nchunks * cs);
    for i in 0..nchunks {
        d.extend_from_slice(&[(seed as u8), (i >> 8) as u8, i as u8, 0x5a]);
    }
    let a = rt0.block_on(blob.put("a", &d, PutOptions::default())).unwrap();
    let b = rt0.block_on(blob.put("b", &d, PutOptions::default())).unwrap();
    let barrier = Arc::new(Barrier::new(threads));
    let handles: Vec<_> = (0..threads)
        .map(|_| {
            let blob = blob.clone();
            let barrier = barrier.clone();
            let a = a.clone();
            std::thread::spawn(move || {
                let rt = tokio::runtime::Builder::new_current_thread().enable_all().build().unwrap();
                barrier.wait();
                rt.block_on(blob.delete(&a)).is_ok()
            })
        })
        .collect();
    let oks = handles.into_iter().map(|h| h.join().unwrap()).filter(|x| *x).count();
    for key in store.scan("_blob:chunk:") {
        if let Ok(mut t) = store.get(&key) {
            t.set("_created", TensorValue::Scalar(ScalarValue::Int(0)));
            store.put(&key, t).unwrap();
        }
    }
    let _ = rt0.block_on(blob.gc());
    match rt0.block_on(blob.get(&b)) {
        Ok(x) if x == d => {}
        Ok(_) => return Some("twin reads back different bytes".into()),
        Err(e) => {
            return Some(format!(
                "{threads} threads deleted the same {nchunks}-chunk artifact at the same moment ({oks} succeeded); chunks aged, gc run; the twin artifact with the same content is unreadable: {e}"
            ))
        }
    }
    match blob.verify(&b) {
        Ok(true) => None,
        other => Some(format!("twin artifact does not verify after concurrent deletes of its sibling: {:?}", other.map_err(|e| e.to_string()))),
    }
}

/// Writer / deleter / incremental-gc hammer.  A store with `long_lived` one-chunk artifacts (they make
/// a gc pass take a while) and `hot` contents whose chunks are at count 0 and old enough to be collected
/// (put, deleted, aged -- all before any thread starts).  Then, released by a barrier, `writers` threads
/// loop put(hot content) -> get must return exactly those bytes -> delete, over the SAME hot contents,
/// while one thread runs `passes` incremental gc() passes; the writers stop when gc is done.
/// Verdict: no writer ever failed to read back an artifact it had just published, and after the threads
/// have joined every published artifact (the long-lived ones and the writers' last ones) reads back and
/// verifies.  Iteration counts are timing dependent and deliberately not reported.
fn gc_hammer_round(seed: u64, writers: usize, long_lived: usize, hot: usize, passes: usize) -> Option<String> {
    use std::sync::atomic::{AtomicBool, Ordering};
    use std::sync::Barrier;
    let cs = 8usize;
    let store = TensorStore::new();
    // min_age 0 with second granularity: only chunks created in an earlier second are collectable; the hot
    // chunks are aged explicitly below, everything created during the run stays protected by its age
    let config = BlobConfig::new().with_chunk_size(cs).with_gc_min_age(Duration::from_secs(0)).with_gc_batch_size(10_000_000);
    let rt0 = tokio::runtime::Builder::new_current_thread().enable_all().build().unwrap();
    let blob = Arc::new(rt0.block_on(BlobStore::new(store.clone(), config)).unwrap());
    let tagb = (seed & 0xff) as u8;
    let mut keep: Vec<(String, Vec<u8>)> = vec![];
    for i in 0..long_lived {
        let d = vec![tagb, 0xAA, (i >> 16) as u8, (i >> 8) as u8, i as u8, 1, 2, 3];
        keep.push((rt0.block_on(blob.put("l", &d, PutOptions::default())).unwrap(), d));
    }
    let hots: Vec<Vec<u8>> = (0..hot).map(|i| vec![tagb, 0xBB, (i >> 8) as u8, i as u8, 9, 9, 9, 9]).collect();
    for d in &hots {
        let id = rt0.block_on(blob.put("h", d, PutOptions::default())).unwrap();
        rt0.block_on(blob.delete(&id)).unwrap();
    }
    // age every chunk (single-threaded, before the threads exist)
    for key in store.scan("_blob:chunk:") {
        if let Ok(mut t) = store.get(&key) {
            t.set("_created", TensorValue::Scalar(ScalarValue::Int(0)));
            store.put(&key, t).unwrap();
        }
    }
    let done = Arc::new(AtomicBool::new(false));
    let barrier = Arc::new(Barrier::new(writers + 1));
    let mut handles = vec![];
    for w in 0..writers {
        let (blob, hots, done, barrier) = (blob.clone(), hots.clone(), done.clone(), barrier.clone());
        handles.push(std::thread::spawn(move || -> (Option<String>, Option<(String, Vec<u8>)>) {
            let rt = tokio::runtime::Builder::new_current_thread().enable_all().build().unwrap();
            let mut r = Rng::new(seed.wrapping_add(w as u64 + 1));
            let mut last: Option<(String, Vec<u8>)> = None;
            barrier.wait();
            loop {
                let d = r.pick(&hots).clone();
                let id = match rt.block_on(blob.put("h", &d, PutOptions::default())) {
                    Ok(id) => id,
                    Err(e) => return (Some(format!("put failed: {e}")), None),
                };
                std::thread::yield_now();
                match rt.block_on(blob.get(&id)) {
                    Ok(x) if x == d => {}
                    Ok(x) => return (Some(format!("writer {w}: artifact just written as {:?} reads back {:?}", d, x)), None),
                    Err(e) => return (Some(format!("writer {w}: artifact just written as {:?} is unreadable while incremental gc runs: {e}", d)), None),
                }
                if done.load(Ordering::SeqCst) {
                    last = Some((id, d));
                    break;
                }
                let _ = rt.block_on(blob.delete(&id));
            }
            (None, last)
        }));
    }
    barrier.wait();
    for _ in 0..passes {
        let _ = rt0.block_on(blob.gc());
    }
    done.store(true, Ordering::SeqCst);
    let mut first_err = None;
    for h in handles {
        let (err, last) = h.join().unwrap();
        if first_err.is_none() {
            first_err = err;
        }
        if let Some(x) = last {
            keep.push(x);
        }
    }
    if first_err.is_some() {
        return first_err;
    }
    // quiescence: every published artifact reads back and verifies
    for (id, d) in &keep {
        match rt0.block_on(blob.get(id)) {
            Ok(x) if &x == d => {}
            other => return Some(format!("at quiescence a published artifact written as {:?} reads {:?}", d, other.map_err(|e| e.to_string()))),
        }
        if !matches!(blob.verify(id), Ok(true)) {
            return Some(format!("at quiescence a published artifact written as {:?} does not verify", d));
        }
    }
    None
}

fn main() {
    let args = Args::parse();
    quiet_panics();
    let mut rng = Rng::new(args.seed);
    let mut dist = Dist::default();
    let mut hits = Hits::default();

    let mut trace = CaseWriter::new(&args.out, "trace");
    let push_trace = |trace: &mut CaseWriter, cs: usize, ops: &[Op], label: &str| {
        let (env, cops, cobs, interesting) = run_trace(cs, ops);
        let term = trace_term(cs, &env, &cops, &cobs);
        trace.push(&term, &format!("{label} cs={cs} ops={:?}", ops), interesting);
    };

    // ---- corpus first: DESIGN section 5 F-C19-inflight and its variants
    {
        let two = vec![0u8, 1, 2, 3, 4, 5, 6, 7];
        push_trace(&mut trace, 4, &[Op::Open, Op::Write(0, two.clone()), Op::FullGc, Op::Finish(0), Op::Get(0)], "corpus F-C19-inflight full_gc");
        push_trace(&mut trace, 4, &[Op::Open, Op::Write(0, two.clone()), Op::Repair, Op::Finish(0), Op::Get(0)], "corpus F-C19-inflight repair");
        // shared chunk: repair lowers the count while a writer holds it; delete the other user; age; gc
        push_trace(
            &mut trace,
            4,
            &[
                Op::Put(vec![0, 1, 2, 3]),
                Op::Open,
                Op::Write(1, vec![0, 1, 2, 3]),
                Op::Repair,
                Op::Finish(1),
                Op::Delete(0),
                Op::Advance(3000),
                Op::Gc,
                Op::Get(1),
            ],
            "corpus F-C19-inflight repair recount of a shared chunk",
        );
        // dedup inside one artifact, delete, aged gc
        push_trace(
            &mut trace,
            2,
            &[Op::Put(vec![1, 1, 1, 1, 1]), Op::Put(vec![1, 1, 0]), Op::Delete(0), Op::Advance(2000), Op::Gc, Op::Get(1), Op::Delete(1), Op::Gc, Op::Advance(2000), Op::Gc, Op::Stats],
            "corpus dedup within one artifact",
        );
        dist.add("corpus", 4);
        // a chunk repeated inside ONE artifact and shared with another artifact; delete the repeating one;
        // incremental gc once the chunks are old enough; the sharer must stay readable (put and stream)
        let rep = vec![7u8, 7, 7, 7, 7, 7, 7, 7, 7, 7, 7, 7]; // cs=4: the same chunk three times
        push_trace(
            &mut trace,
            4,
            &[Op::Put(rep.clone()), Op::Put(vec![7, 7, 7, 7, 1]), Op::Delete(0), Op::Advance(3000), Op::Gc, Op::Get(1), Op::Verify(1), Op::Stats],
            "corpus repeated chunk in one artifact, shared, delete, aged gc (put)",
        );
        push_trace(
            &mut trace,
            4,
            &[
                Op::Open,
                Op::Write(0, rep[..6].to_vec()),
                Op::Write(0, rep[6..].to_vec()),
                Op::Finish(0),
                Op::Put(vec![7, 7, 7, 7]),
                Op::Advance(2000),
                Op::Delete(0),
                Op::Gc,
                Op::Get(1),
                Op::Advance(2000),
                Op::Gc,
                Op::Get(1),
            ],
            "corpus repeated chunk in one artifact, shared, delete, aged gc (stream)",
        );
        push_trace(
            &mut trace,
            2,
            &[Op::Put(vec![3, 3, 0, 0, 3, 3]), Op::Put(vec![3, 3, 3, 3, 3]), Op::Delete(1), Op::Advance(5000), Op::Gc, Op::Get(0), Op::Delete(0), Op::Gc, Op::Stats],
            "corpus repeated chunk, both artifacts repeat it",
        );
        // repair while an artifact lists the same chunk several times, then a sharer, delete, aged gc
        push_trace(
            &mut trace,
            4,
            &[Op::Put(rep.clone()), Op::Repair, Op::Put(vec![7, 7, 7, 7]), Op::Delete(0), Op::Advance(3000), Op::Gc, Op::Get(1), Op::Verify(1)],
            "corpus repair with a chunk repeated inside one artifact, then sharer, delete, aged gc",
        );
        push_trace(
            &mut trace,
            2,
            &[Op::Put(vec![5, 5, 5, 5, 5, 5]), Op::Put(vec![5, 5, 1]), Op::Repair, Op::Delete(0), Op::Advance(2000), Op::Gc, Op::Get(1), Op::Repair, Op::Get(1)],
            "corpus repair with a repeated and shared chunk, delete the repeating artifact, aged gc",
        );
        dist.add("corpus", 2);
        // a writer whose latest chunk is a dedup hit; the owner of that chunk is deleted; full_gc / repair
        // before finish
        for (collector, label) in [(Op::FullGc, "full_gc"), (Op::Repair, "repair")] {
            push_trace(
                &mut trace,
                4,
                &[Op::Put(vec![1, 2, 3, 4]), Op::Open, Op::Write(1, vec![1, 2, 3, 4]), Op::Delete(0), collector.clone(), Op::Finish(1), Op::Get(1), Op::Verify(1)],
                &format!("corpus in-flight writer, latest chunk a dedup hit, owner deleted, {label} before finish"),
            );
            push_trace(
                &mut trace,
                4,
                &[
                    Op::Put(vec![1, 2, 3, 4, 9, 9, 9, 9]),
                    Op::Open,
                    Op::Write(1, vec![5, 5, 5, 5, 1, 2]),
                    Op::Write(1, vec![3, 4, 9, 9]),
                    Op::Delete(0),
                    collector.clone(),
                    Op::Write(1, vec![9, 9]),
                    collector.clone(),
                    Op::Advance(3000),
                    Op::Gc,
                    Op::Finish(1),
                    Op::Get(1),
                ],
                &format!("corpus in-flight writer, new chunk then dedup hits, owner deleted, {label} twice before finish"),
            );
        }
        dist.add("corpus", 7);
    }

    // ---- boundary sizes x chunk sizes x random partitions
    let reps = args.budget(2, 40);
    for cs in [1usize, 2, 3, 4, 5, 8] {
        let lens = [0, 1, cs.saturating_sub(1), cs, cs + 1, 2 * cs - 1, 2 * cs, 2 * cs + 1, 5 * cs + cs / 2];
        for len in lens {
            for _ in 0..reps {
                let ops = gen_stream_ops(&mut rng, cs, len);
                dist.hit("stream.boundary");
                push_trace(&mut trace, cs, &ops, "stream");
            }
        }
    }

    // ---- random programs
    let ntrace = args.budget(350, 12000);
    for _ in 0..ntrace {
        let cs = *rng.pick(&[1usize, 2, 3, 4, 4, 5, 8]);
        let len = rng.range(3, 22) as usize;
        let ops = gen_ops(&mut rng, cs, len, &mut dist);
        dist.hit(&format!("trace.len.{}", (ops.len() / 5) * 5));
        if rng.chance(1, 5) {
            let batch = rng.range(1, 2) as usize;
            let (env, cops, cobs, interesting) = run_trace_batch(cs, batch, &ops);
            dist.hit("trace.small_gc_batch");
            trace.push(&trace_term(cs, &env, &cops, &cobs), &format!("random gc_batch_size={batch} cs={cs} ops={:?}", ops), interesting);
        } else {
            push_trace(&mut trace, cs, &ops, "random");
        }
    }

    // ---- verify under damage
    let mut damage = CaseWriter::new(&args.out, "damage");
    let ndamage = args.budget(150, 5000);
    let mut made = 0;
    let mut attempts = 0;
    while made < ndamage && attempts < ndamage * 10 {
        attempts += 1;
        let cs = *rng.pick(&[2usize, 3, 4, 5]);
        let len = rng.range(2, 12) as usize;
        let ops = gen_ops(&mut rng, cs, len, &mut dist);
        let (mut env, cops, _cobs, _) = run_trace(cs, &ops);
        let cd = env.cdump();
        let ad = env.adump();
        if cd.is_empty() {
            continue;
        }
        let (k, data, _, _) = cd[rng.below(cd.len() as u64) as usize].clone();
        let key = env
            .store
            .scan("_blob:chunk:")
            .into_iter()
            .find(|key| {
                let d = key.strip_prefix("_blob:chunk:").unwrap().to_string();
                env.digest_ids.get(&d) == Some(&k)
            })
            .unwrap();
        let dmg = if rng.chance(1, 2) {
            env.store.delete(&key).unwrap();
            dist.hit("damage.remove");
            format!("DRemove {k}")
        } else {
            // alter: flip one byte, or change the length
            let mut nd = data.clone();
            match rng.below(3) {
                0 => {
                    let i = rng.below(nd.len() as u64) as usize;
                    nd[i] ^= 1;
                }
                1 => nd.push(7),
                _ => {
                    nd.pop();
                }
            }
            let mut t = env.store.get(&key).unwrap();
            t.set("_data", TensorValue::Scalar(ScalarValue::Bytes(nd.clone())));
            env.store.put(&key, t).unwrap();
            dist.hit("damage.alter");
            format!("DAlter {k} {}", bytes(&nd))
        };
        let uses = ad.iter().filter(|a| a.1.contains(&k)).count();
        // register the digests of what now reads back
        for i in 0..env.ids.len() as u64 {
            if let Out::Bytes(d) = env.get(i) {
                env.hid(&d);
            }
        }
        let vs: Vec<String> = (0..env.ids.len() as u64).map(|i| format!("({i}, {})", env.verify(i).coq())).collect();
        let term = format!(
            "({}, {}, {}, {}, {}, {}, {})",
            cs,
            MIN_AGE,
            tbl_coq(&env.tbl),
            list(cops.iter().cloned()),
            adump_coq(&ad),
            dmg,
            list(vs)
        );
        damage.push(&term, &format!("cs={cs} ops={:?} damage={dmg} (used by {uses} artifact(s))", ops), uses > 0);
        made += 1;
    }

    // ---- concurrency stress (implementation only)
    let rounds = args.budget(24, 600);
    let mut stress = CaseWriter::new(&args.out, "stress");
    for i in 0..rounds {
        let tasks = 2 + (i % 3);
        let with_full_gc = i % 2 == 1;
        let seed = rng.next();
        let res = stress_round(seed, tasks, 60, with_full_gc);
        dist.hit(if with_full_gc { "stress.with_full_gc" } else { "stress.gc_only" });
        stress.push(&format!("{seed}"), &format!("stress seed={seed} tasks={tasks} full_gc={with_full_gc} -> {:?}", res), true);
        if let Some(what) = res {
            dist.hit("stress.hit");
            hits.push(
                if with_full_gc { "concurrent-full-gc" } else { "concurrent-refcount" },
                &what,
                json!({"stress_seed": seed, "tasks": tasks, "steps": 60, "with_full_gc": with_full_gc}),
            );
        }
    }

    let brounds = args.budget(12, 200);
    for i in 0..brounds {
        let threads = 2 + (i % 3);
        let seed = rng.next();
        let res = barrier_round(seed, threads, 40);
        dist.hit("stress.barrier");
        stress.push(&format!("{seed}"), &format!("barrier stress seed={seed} threads={threads} reps=40 -> {:?}", res), true);
        if let Some(what) = res {
            dist.hit("stress.barrier_hit");
            hits.push("concurrent-refcount", &what, json!({"barrier_seed": seed, "threads": threads, "reps": 40}));
        }
    }

    let drounds = args.budget(16, 200);
    for i in 0..drounds {
        let threads = 2 + (i % 2);
        let seed = rng.next();
        let res = double_delete_round(seed, threads, 300);
        dist.hit("stress.double_delete");
        stress.push(&format!("{seed}"), &format!("double-delete stress seed={seed} threads={threads} chunks=300 -> {:?}", res), true);
        if let Some(what) = res {
            dist.hit("stress.double_delete_hit");
            hits.push("concurrent-delete", &what, json!({"double_delete_seed": seed, "threads": threads, "chunks": 300}));
        }
    }

    let hrounds = args.budget(8, 120);
    for i in 0..hrounds {
        let writers = 2 + (i % 2);
        let seed = rng.next();
        let res = gc_hammer_round(seed, writers, 1500, 32, 3);
        dist.hit("stress.gc_hammer");
        stress.push(&format!("{seed}"), &format!("writer/deleter/gc hammer seed={seed} writers={writers} long_lived=1500 hot=32 passes=3 -> {:?}", res), true);
        if let Some(what) = res {
            dist.hit("stress.gc_hammer_hit");
            hits.push("concurrent-gc", &what, json!({"gc_hammer_seed": seed, "writers": writers, "long_lived": 1500, "hot": 32, "gc_passes": 3}));
        }
    }

    write_meta(
        &args.out,
        json!({
            "property": "C19", "seed": args.seed, "tier": args.tier,
            "kinds": [trace.summary(), damage.summary(), stress.summary()],
            "distribution": dist.json(),
            "hits": hits.0,
            "nontrivial_rule": "trace: some chunk is shared (refs >= 2) or some chunk is collected during the run; damage: the damaged chunk belongs to at least one existing artifact; stress: every round",
        }),
    );
}
