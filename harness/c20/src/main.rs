//! C20 correspondence harness: the real lossless codecs against NV.C20.Run.
//!   varint / vdec / delta / rle / sparse / frame / split  -> check_* in coq/C20/Run.v
//! plus implementation-only streams (no model needed): decoder fuzzing (no panic, error-or-valid),
//! library premises (bitcode and lz4 round trips for Message variants).
use nvh_common::*;
use std::io::Cursor;
use tensor_chain::network::{
    AppendEntriesResponse, BlockRequest, Message, QueryRequest, QueryResponse, RequestVote,
    RequestVoteResponse, SnapshotResponse, TimeoutNow, TxAbortMsg, TxAckMsg,
};
use tensor_chain::tcp::compression::{self, CompressionConfig, CompressionMethod};
use tensor_chain::tcp::{LengthDelimitedCodec, TcpError};
use tensor_compress::{
    compress_ids, decompress_ids, delta_decode, delta_encode, rle_decode, rle_encode, varint_decode,
    varint_encode, RleEncoded,
};
use tensor_store::SparseVector;

/// field-for-field mirror of SparseVector (derived Serialize/Deserialize): lets the harness produce the bytes
/// of vectors no constructor would build
#[derive(serde::Serialize)]
struct ForgedSparse {
    dimension: usize,
    positions: Vec<u32>,
    values: Vec<f32>,
}

fn nl(xs: &[u64]) -> String {
    list(xs.iter().map(|x| n(*x)))
}

fn gen_u64(r: &mut Rng) -> u64 {
    match r.below(10) {
        0 => 0,
        1 => u64::MAX,
        2 => 1u64 << r.below(64),
        3 => (1u64 << r.below(64)).wrapping_sub(1),
        4 => r.below(128),
        5 => r.below(1 << 14),
        6 => 127 + r.below(3),
        7 => (1u64 << (7 * r.range(1, 9))).wrapping_add(r.below(3)).wrapping_sub(1),
        _ => r.next() >> r.below(64),
    }
}

fn gen_ids(r: &mut Rng, dist: &mut Dist) -> Vec<u64> {
    let len = match r.below(10) {
        0 => 0,
        1 => 1,
        _ => r.range(2, 12) as usize,
    };
    let mut v: Vec<u64> = (0..len).map(|_| if r.chance(1, 2) { r.below(1000) } else { gen_u64(r) }).collect();
    match r.below(4) {
        0 => {
            v.sort_unstable();
            dist.hit("ids.sorted");
        }
        1 => {
            v.sort_unstable();
            v.reverse();
            dist.hit("ids.descending");
        }
        2 => {
            if !v.is_empty() {
                let d = v[0];
                let k = v.len() / 2;
                v[k] = d;
            }
            dist.hit("ids.duplicates");
        }
        _ => dist.hit("ids.unsorted"),
    }
    v
}

fn f32_bits(r: &mut Rng) -> u32 {
    match r.below(12) {
        0 => 0,                   // +0.0
        1 => 0x8000_0000,         // -0.0
        2 => f32::NAN.to_bits(),
        3 => 0xFFC0_0001,         // negative NaN with payload
        4 => f32::INFINITY.to_bits(),
        5 => f32::NEG_INFINITY.to_bits(),
        6 => 1,                   // smallest denormal
        7 => f32::MAX.to_bits(),
        8 | 9 => 0,
        _ => (r.next() as u32),
    }
}

fn gen_message(r: &mut Rng, dist: &mut Dist) -> Message {
    let s = |r: &mut Rng| -> String {
        let k = r.below(4);
        match k {
            0 => String::new(),
            1 => "node-ä-√".to_string(),
            _ => format!("n{}", r.below(1000)),
        }
    };
    let blob = |r: &mut Rng| -> Vec<u8> {
        let len = *r.pick(&[0usize, 1, 7, 40, 300, 2000]);
        if r.chance(1, 2) {
            vec![r.below(256) as u8; len] // compressible
        } else {
            (0..len).map(|_| r.below(256) as u8).collect()
        }
    };
    let k = r.below(12);
    let m = match k {
        0 => Message::Ping { term: gen_u64(r) },
        1 => Message::Pong { term: gen_u64(r) },
        2 => Message::RequestVote(RequestVote {
            term: gen_u64(r),
            candidate_id: s(r),
            last_log_index: gen_u64(r),
            last_log_term: gen_u64(r),
            state_embedding: SparseVector::from_dense(&(0..r.below(6)).map(|_| f32::from_bits(f32_bits(r))).collect::<Vec<_>>()),
        }),
        3 => Message::RequestVoteResponse(RequestVoteResponse { term: gen_u64(r), vote_granted: r.chance(1, 2), voter_id: s(r) }),
        4 => Message::TimeoutNow(TimeoutNow { term: gen_u64(r), leader_id: s(r) }),
        5 => Message::AppendEntriesResponse(AppendEntriesResponse {
            term: gen_u64(r),
            success: r.chance(1, 2),
            follower_id: s(r),
            match_index: gen_u64(r),
            used_fast_path: r.chance(1, 2),
        }),
        6 => Message::BlockRequest(BlockRequest { from_height: gen_u64(r), to_height: gen_u64(r), requester_id: s(r) }),
        7 => Message::SnapshotResponse(SnapshotResponse {
            snapshot_height: gen_u64(r),
            snapshot_hash: [r.below(256) as u8; 32],
            data: blob(r),
            offset: gen_u64(r),
            total_size: gen_u64(r),
            is_last: r.chance(1, 2),
        }),
        8 => Message::TxAbort(TxAbortMsg { tx_id: gen_u64(r), reason: s(r), shards: (0..r.below(4)).map(|_| r.below(9) as usize).collect() }),
        9 => Message::TxAck(TxAckMsg { tx_id: gen_u64(r), shard_id: r.below(9) as usize, success: r.chance(1, 2), error: if r.chance(1, 2) { Some(s(r)) } else { None } }),
        10 => Message::QueryRequest(QueryRequest {
            query_id: gen_u64(r),
            query: s(r),
            shard_id: r.below(9) as usize,
            embedding: if r.chance(1, 2) { Some(SparseVector::from_dense(&[1.0, 0.0, -2.5])) } else { None },
            timeout_ms: gen_u64(r),
        }),
        _ => Message::QueryResponse(QueryResponse {
            query_id: gen_u64(r),
            shard_id: r.below(9) as usize,
            result: blob(r),
            execution_time_us: gen_u64(r),
            success: r.chance(1, 2),
            error: if r.chance(1, 3) { Some(s(r)) } else { None },
        }),
    };
    dist.hit(&format!("msg.variant.{k}"));
    m
}

fn fres(r: &Result<Vec<u8>, TcpError>) -> String {
    match r {
        Ok(b) => format!("(FOk {})", bytes(b)),
        Err(TcpError::MessageTooLarge { size, max_size }) => format!("(FErr (ETooLarge {size} {max_size}))"),
        Err(TcpError::InvalidFrame(_)) => "(FErr EInvalid)".into(),
        Err(TcpError::Compression { .. }) => "(FErr ECompression)".into(),
        Err(_) => "(FErr EDeser)".into(),
    }
}
fn dec_code(sent: &Message, r: Result<Message, TcpError>) -> u64 {
    match r {
        Ok(m) => {
            if format!("{m:?}") == format!("{sent:?}") { 0 } else { 1 }
        }
        Err(TcpError::MessageTooLarge { .. }) => 2,
        Err(_) => 3,
    }
}

fn main() {
    let args = Args::parse();
    quiet_panics();
    let mut rng = Rng::new(args.seed);
    let mut dist = Dist::default();
    let mut hits = Hits::default();

    // ---------------------------------------------------------------- varint
    let mut w = CaseWriter::new(&args.out, "varint");
    let corpus: Vec<Vec<u64>> = vec![vec![], vec![0], vec![127], vec![128], vec![u64::MAX], vec![0, 1, 127, 128, 16383, 16384, u64::MAX, 1 << 63]];
    let nv = args.budget(400, 20000);
    for i in 0..nv + corpus.len() {
        let xs: Vec<u64> = if i < corpus.len() { corpus[i].clone() } else { (0..rng.below(8)).map(|_| gen_u64(&mut rng)).collect() };
        let enc = varint_encode(&xs);
        let dec = varint_decode(&enc);
        w.push(&format!("({}, {}, {})", nl(&xs), bytes(&enc), nl(&dec)), &format!("varint {:?}", xs), !xs.is_empty());
    }
    let mut wd = CaseWriter::new(&args.out, "vdec");
    let nvd = args.budget(400, 20000);
    for _ in 0..nvd {
        // arbitrary bytes; biased towards long continuation runs (the shift >= 64 branch)
        let len = rng.below(24) as usize;
        let bs: Vec<u8> = (0..len)
            .map(|_| match rng.below(4) {
                0 => 0x80 | rng.below(128) as u8,
                1 => 0xFF,
                2 => rng.below(128) as u8,
                _ => rng.below(256) as u8,
            })
            .collect();
        let dec = guarded(|| varint_decode(&bs));
        match dec {
            Ok(dec) => {
                dist.hit(if bs.iter().filter(|b| **b >= 0x80).count() >= 10 { "vdec.overlong" } else { "vdec.plain" });
                wd.push(&format!("({}, {})", bytes(&bs), nl(&dec)), &format!("varint_decode {}", hex(&bs)), len > 0);
            }
            Err(p) => hits.push("", &format!("varint_decode panicked on {}: {p}", hex(&bs)), json!({"bytes": hex(&bs)})),
        }
    }

    // ---------------------------------------------------------------- delta
    let mut wl = CaseWriter::new(&args.out, "delta");
    let dcorpus: Vec<Vec<u64>> = vec![vec![5, 3], vec![], vec![7], vec![u64::MAX, 0], vec![0, u64::MAX], vec![3, 3, 3], vec![10, 20, 100, 101, 200]];
    let nd = args.budget(400, 20000);
    for i in 0..nd + dcorpus.len() {
        let ids = if i < dcorpus.len() { dcorpus[i].clone() } else { gen_ids(&mut rng, &mut dist) };
        let r = guarded(|| {
            let enc = delta_encode(&ids);
            let dec = delta_decode(&enc);
            let comp = compress_ids(&ids);
            let decomp = decompress_ids(&comp);
            (enc, dec, comp, decomp)
        });
        match r {
            Ok((enc, dec, comp, decomp)) => wl.push(
                &format!("({}, {}, {}, {}, {})", nl(&ids), nl(&enc), nl(&dec), bytes(&comp), nl(&decomp)),
                &format!("delta ids={:?}", ids),
                ids.len() >= 2,
            ),
            Err(p) => hits.push("", &format!("delta codec panicked on {:?}: {p}", ids), json!({"ids": ids})),
        }
    }

    // ---------------------------------------------------------------- rle
    let mut wr = CaseWriter::new(&args.out, "rle");
    let nr = args.budget(300, 10000);
    for _ in 0..nr {
        let len = *rng.pick(&[0usize, 1, 2, 5, 9, 30]);
        let alphabet = rng.range(1, 4);
        let data: Vec<u64> = (0..len).map(|_| rng.below(alphabet)).collect();
        let enc = rle_encode(&data);
        let dec = rle_decode(&enc);
        let counts: Vec<u64> = enc.run_lengths.iter().map(|c| *c as u64).collect();
        dist.hit(&format!("rle.runs.{}", enc.runs().min(6)));
        wr.push(
            &format!("({}, {}, {}, {}, {})", nl(&data), nl(&enc.values), nl(&counts), nl(&dec), enc.len()),
            &format!("rle {:?}", data),
            len >= 2,
        );
    }
    // malformed RleEncoded values (lengths of the two vectors differ): decode must not panic
    for _ in 0..args.budget(100, 2000) {
        let vals: Vec<u64> = (0..rng.below(5)).map(|_| rng.below(3)).collect();
        let cnts: Vec<u32> = (0..rng.below(5)).map(|_| rng.below(4) as u32).collect();
        let e = RleEncoded { values: vals.clone(), run_lengths: cnts.clone() };
        if let Err(p) = guarded(|| rle_decode(&e)) {
            hits.push("", &format!("rle_decode panicked on values={vals:?} runs={cnts:?}: {p}"), json!({"values": vals, "runs": cnts}));
        }
        dist.hit("rle.malformed");
    }

    // ---------------------------------------------------------------- sparse
    let mut ws = CaseWriter::new(&args.out, "sparse");
    let ns = args.budget(300, 10000);
    for _ in 0..ns {
        let len = rng.below(12) as usize;
        let d: Vec<u32> = (0..len).map(|_| f32_bits(&mut rng)).collect();
        let dense: Vec<f32> = d.iter().map(|b| f32::from_bits(*b)).collect();
        let sv = SparseVector::from_dense(&dense);
        let back: Vec<u64> = sv.to_dense().iter().map(|f| f.to_bits() as u64).collect();
        let pos: Vec<u64> = sv.positions().iter().map(|p| *p as u64).collect();
        let vals: Vec<u64> = sv.values().iter().map(|f| f.to_bits() as u64).collect();
        let dn: Vec<u64> = d.iter().map(|b| *b as u64).collect();
        if d.iter().any(|b| *b == 0x8000_0000) {
            dist.hit("sparse.has_neg_zero");
        }
        if dense.iter().any(|f| f.is_nan()) {
            dist.hit("sparse.has_nan");
        }
        // the sparse form also travels through bitcode (snapshots, messages): premise exercised here
        let bc = bitcode::serialize(&sv).ok().and_then(|b| bitcode::deserialize::<SparseVector>(&b).ok());
        if bc.as_ref().map(|x| x.to_dense().iter().map(|f| f.to_bits()).collect::<Vec<_>>()) != Some(sv.to_dense().iter().map(|f| f.to_bits()).collect::<Vec<_>>()) {
            hits.push("", &format!("bitcode round trip of SparseVector differs for bits {:x?}", d), json!({"bits": dn}));
        }
        ws.push(
            &format!("({}, {}, {}, {}, {})", nl(&dn), sv.dimension(), nl(&pos), nl(&vals), nl(&back)),
            &format!("sparse bits={:x?}", d),
            len >= 1,
        );
    }


    // ---------------------------------------------------------------- sparse vector assembled from parts
    let mut wpt = CaseWriter::new(&args.out, "parts");
    for i in 0..args.budget(300, 10000) {
        let dim = rng.below(12);
        let k = rng.below(dim + 2) as usize;
        let mut ps: Vec<u32> = if rng.chance(4, 5) {
            // distinct in-range positions in a random order
            let mut all: Vec<u32> = (0..dim as u32).collect();
            for j in (1..all.len()).rev() { let x = rng.below(j as u64 + 1) as usize; all.swap(j, x); }
            all.truncate(k);
            all
        } else {
            (0..k).map(|_| rng.below(dim + 2) as u32).collect()
        };
        if i % 7 == 0 { ps.sort_unstable(); }
        // tiny magnitudes on purpose: values a tolerance-based zero test would drop
        let vs: Vec<u32> = ps.iter().map(|_| match rng.below(10) {
            0 => 0x3400_0000,            // f32::EPSILON
            1 => 0x3300_0000,            // EPSILON / 2
            2 => 0x0080_0000,            // smallest normal
            3 => 0x8000_0001,            // negative subnormal
            4 => 0x3380_0000 | (rng.next() as u32 & 0x7f_ffff),
            _ => f32_bits(&mut rng),
        }).collect();
        let vals: Vec<f32> = vs.iter().map(|b| f32::from_bits(*b)).collect();
        let res = guarded({ let ps = ps.clone(); let vals = vals.clone(); move || SparseVector::try_from_parts(dim as usize, ps, vals) });
        let r = match res {
            Err(p) => { hits.push("", &format!("try_from_parts panicked on dim={dim} positions={ps:?} bits={vs:x?}: {p}"), json!({"dim": dim, "positions": ps, "bits": vs})); continue; }
            Ok(Err(_)) => None,
            Ok(Ok(sv)) => {
                let pos: Vec<u64> = sv.positions().iter().map(|p| *p as u64).collect();
                let val: Vec<u64> = sv.values().iter().map(|f| f.to_bits() as u64).collect();
                let back: Vec<u64> = sv.to_dense().iter().map(|f| f.to_bits() as u64).collect();
                let get: Vec<u64> = (0..dim as usize).map(|j| sv.get(j).to_bits() as u64).collect();
                Some(format!("({}, {}, {}, {})", nl(&pos), nl(&val), nl(&back), nl(&get)))
            }
        };
        dist.hit(if r.is_some() { "parts.accepted" } else { "parts.refused" });
        if vs.iter().any(|b| { let a = f32::from_bits(*b).abs(); a > 0.0 && a <= f32::EPSILON }) { dist.hit("parts.has_tiny_nonzero"); }
        let psn: Vec<u64> = ps.iter().map(|p| *p as u64).collect();
        let vsn: Vec<u64> = vs.iter().map(|b| *b as u64).collect();
        wpt.push(&format!("({}, {}, {}, {})", dim, nl(&psn), nl(&vsn), opt(r)), &format!("from_parts dim={dim} positions={ps:?} bits={vs:x?}"), k >= 1);
    }

    // ---------------------------------------------------------------- sparse vector under a sequence of set() calls
    let mut wss = CaseWriter::new(&args.out, "svset");
    for i in 0..args.budget(300, 10000) {
        let len = if i == 0 { 8 } else { rng.range(1, 10) as usize };
        // mostly non-zero so that removals have entries behind them
        let d: Vec<u32> = (0..len).map(|j| if i == 0 { 0x3f80_0000 + j as u32 } else if rng.chance(1, 4) { 0 } else { 0x3f80_0000 + rng.below(1000) as u32 }).collect();
        let dense: Vec<f32> = d.iter().map(|b| f32::from_bits(*b)).collect();
        let mut sv = SparseVector::from_dense(&dense);
        let nops = if i == 0 { 3 } else { rng.range(1, 8) as usize };
        let mut ops: Vec<(u64, u32)> = vec![];
        let mut obs: Vec<String> = vec![];
        let mut panicked = false;
        for k in 0..nops {
            let (idx, v) = if i == 0 { [(1u64, 0u32), (4, 0x8000_0000), (0, 0x4000_0000)][k] } else {
                (if rng.chance(1, 12) { len as u64 + rng.below(2) } else { rng.below(len as u64) },
                 match rng.below(5) { 0 | 1 => 0, 2 => 0x8000_0000, _ => f32_bits(&mut rng) })
            };
            ops.push((idx, v));
            let mut sv2 = sv.clone();
            let r = guarded(move || { let r = sv2.try_set(idx as usize, f32::from_bits(v)); (sv2, r.is_err()) });
            match r {
                Err(p) => { hits.push("", &format!("SparseVector::try_set panicked: dense bits {:x?}, calls so far {:?}: {p}", d, ops), json!({"bits": d, "ops": format!("{ops:?}")})); panicked = true; break; }
                Ok((nsv, refused)) => {
                    sv = nsv;
                    let pos: Vec<u64> = sv.positions().iter().map(|p| *p as u64).collect();
                    let val: Vec<u64> = sv.values().iter().map(|f| f.to_bits() as u64).collect();
                    let back: Vec<u64> = sv.to_dense().iter().map(|f| f.to_bits() as u64).collect();
                    let get: Vec<u64> = (0..len).map(|j| sv.get(j).to_bits() as u64).collect();
                    obs.push(format!("({}, {}, {}, {}, {})", b(refused), nl(&pos), nl(&val), nl(&back), nl(&get)));
                }
            }
        }
        if panicked { continue; }
        dist.hit(&format!("svset.ops.{}", nops.min(8)));
        let dn: Vec<u64> = d.iter().map(|b| *b as u64).collect();
        wss.push(&format!("({}, {}, {})", nl(&dn), list(ops.iter().map(|(a, v)| format!("({a}, {v})"))), list(obs)), &format!("sparse set: dense bits {:x?} then set calls (index, value bits) {:x?}", d, ops), true);
    }

    // ---------------------------------------------------------------- received (possibly forged) sparse vectors
    let mut wv = CaseWriter::new(&args.out, "valid");
    let nvv = args.budget(600, 20000);
    let vcorpus: Vec<(usize, Vec<u32>, Vec<u32>)> = vec![
        (4, vec![0, 1, 2], vec![0x3f80_0000]),                      // more positions than values (F-C20-validator)
        (4, vec![9], vec![0x3f80_0000]),                            // single out-of-range position
        (4, vec![0, 2], vec![0x3f80_0000, 0x4000_0000]),            // well formed
        (4, vec![2, 0], vec![0x3f80_0000, 0x4000_0000]),            // unsorted
        (4, vec![1, 1], vec![0x3f80_0000, 0x4000_0000]),            // duplicate position
        (4, vec![0], vec![0x3f80_0000, 0x4000_0000]),               // more values than positions
        (0, vec![], vec![]),                                        // zero dimension
        (4, vec![3], vec![0x7fc0_0000]),                            // NaN
        (4, vec![3], vec![0x7f80_0000]),                            // +inf
        (4, vec![0, 1, 2, 4], vec![0x3f80_0000; 4]),                // last position == dimension
    ];
    for i in 0..nvv + vcorpus.len() {
        let (dim, pos, vals): (usize, Vec<u32>, Vec<u32>) = if i < vcorpus.len() {
            vcorpus[i].clone()
        } else {
            let dim = *rng.pick(&[0usize, 1, 2, 4, 8, 16, 70]);
            let np = rng.below(6) as usize;
            // mostly ascending positions inside the dimension, with the occasional outlier / disorder
            let mut pos: Vec<u32> = (0..np).map(|_| rng.below(dim.max(1) as u64 + 2) as u32).collect();
            if rng.chance(3, 4) { pos.sort_unstable(); }
            if rng.chance(2, 3) { pos.dedup(); }
            let nv = match rng.below(5) { 0 => pos.len().saturating_sub(1), 1 => pos.len() + 1, _ => pos.len() };
            let vals: Vec<u32> = (0..nv)
                .map(|_| match rng.below(12) {
                    0 => 0x7fc0_0000,                   // NaN
                    1 => 0x7f80_0000,                   // +inf
                    2 => 0xff80_0000,                   // -inf
                    _ => ((rng.below(200) as f32 - 100.0) / 8.0).to_bits(),
                })
                .collect();
            (dim, pos, vals)
        };
        let max_dim = *rng.pick(&[8usize, 64, 1024]);
        let forged = ForgedSparse { dimension: dim, positions: pos.clone(), values: vals.iter().map(|b| f32::from_bits(*b)).collect() };
        let bytes_ = match bitcode::serialize(&forged) { Ok(b) => b, Err(_) => continue };
        let sv: SparseVector = match bitcode::deserialize(&bytes_) { Ok(v) => v, Err(_) => { dist.hit("valid.deser_rejects"); continue } };
        let validator = tensor_chain::EmbeddingValidator::new(max_dim, 1.0e9);
        let accepted = validator.validate(&sv, "f").is_ok();
        let mut panicked = false;
        if accepted {
            let probe = SparseVector::from_dense(&vec![1.0f32; dim]);
            let sv2 = sv.clone();
            panicked = guarded(move || {
                let _ = sv2.to_dense();
                for k in 0..sv2.dimension().min(64) { let _ = sv2.get(k); }
                let _ = probe.dot(&sv2);
                let _ = sv2.dot(&probe);
                let _ = sv2.magnitude();
                let _ = sv2.cosine_similarity(&probe);
            }).is_err();
        }
        dist.hit(match (accepted, panicked, pos.len() == vals.len()) {
            (true, true, _) => "valid.accepted_then_panics",
            (true, false, _) => "valid.accepted",
            (false, _, false) => "valid.rejected.len_mismatch",
            (false, _, true) => "valid.rejected.other",
        });
        let pn: Vec<u64> = pos.iter().map(|p| *p as u64).collect();
        let vn: Vec<u64> = vals.iter().map(|p| *p as u64).collect();
        wv.push(
            &format!("({}, {}, {}, {}, {}, {})", dim, nl(&pn), nl(&vn), max_dim, b(accepted), b(panicked)),
            &format!("forged SparseVector dim={dim} positions={pos:?} value_bits={vals:x?} max_dim={max_dim}"),
            !pos.is_empty() || !vals.is_empty(),
        );
    }


    // ---------------------------------------------------------------- range requests through the message validator
    let mut wb = CaseWriter::new(&args.out, "breq");
    {
        use tensor_chain::{CompositeValidator, MessageValidationConfig, MessageValidator};
        let nb = args.budget(300, 10000);
        let corpus: Vec<(u64, u64, u64)> = vec![
            (1000, 0, u64::MAX), (1000, u64::MAX, u64::MAX), (1000, 0, 999), (1000, 0, 1000), (1000, 5, 4),
            (1000, u64::MAX - 999, u64::MAX), (1000, u64::MAX - 1000, u64::MAX), (1, 7, 7), (0, 7, 7), (u64::MAX - 2, 0, u64::MAX - 3),
        ];
        for i in 0..nb + corpus.len() {
            let (maxb, from, to) = if i < corpus.len() { corpus[i] } else {
                let maxb = *rng.pick(&[0u64, 1, 10, 1000, 1 << 32, u64::MAX - 2]);
                let from = match rng.below(4) { 0 => 0, 1 => u64::MAX - rng.below(1100), 2 => rng.below(2000), _ => gen_u64(&mut rng) };
                let to = match rng.below(5) {
                    0 => u64::MAX,
                    1 => from.saturating_add(maxb.min(2000)).saturating_sub(rng.below(3)),
                    2 => from.saturating_add(rng.below(3)),
                    3 => from.saturating_sub(rng.below(3)),
                    _ => gen_u64(&mut rng),
                };
                (maxb, from, to)
            };
            let mut cfg = MessageValidationConfig::default();
            cfg.max_blocks_per_request = maxb;
            let v = CompositeValidator::new(cfg);
            let msg = Message::BlockRequest(tensor_chain::network::BlockRequest { from_height: from, to_height: to, requester_id: "n1".to_string() });
            let r = guarded(move || v.validate(&msg, &"n2".to_string()).is_ok());
            let (acc, pan) = match r { Ok(a) => (a, false), Err(_) => (false, true) };
            dist.hit(if pan { "breq.panicked" } else if acc { "breq.accepted" } else { "breq.rejected" });
            wb.push(&format!("({maxb}, {from}, {to}, {}, {})", b(acc), b(pan)), &format!("BlockRequest from={from} to={to} max_blocks_per_request={maxb}"), true);
        }
        // every other validator with extreme numeric fields: must answer, not panic (implementation only)
        let v = CompositeValidator::new(MessageValidationConfig::default());
        for _ in 0..args.budget(300, 5000) {
            let mut msg = gen_message(&mut rng, &mut Dist::default());
            let x = *rng.pick(&[0u64, 1, u64::MAX, u64::MAX - 1, 1 << 63, 1 << 32]);
            match &mut msg {
                Message::RequestVote(m) => { m.term = x; m.last_log_index = x; m.last_log_term = x; }
                Message::AppendEntries(m) => { m.term = x; m.prev_log_index = x; m.leader_commit = x; }
                Message::AppendEntriesResponse(m) => { m.term = x; m.match_index = x; }
                Message::SnapshotRequest(m) => { m.offset = x; m.chunk_size = x; }
                Message::BlockRequest(m) => { m.from_height = x; m.to_height = u64::MAX; }
                _ => {}
            }
            let d = format!("{msg:?}").chars().take(160).collect::<String>();
            let v2 = &v;
            if let Err(p) = guarded(std::panic::AssertUnwindSafe(move || { let _ = v2.validate(&msg, &"n2".to_string()); })) {
                hits.push("", &format!("message validator panicked on {d}: {p}"), json!({"msg": d}));
            }
            dist.hit("validators.extreme_fields");
        }
    }


    // ---------------------------------------------------------------- tensor_compress::format sparse snapshot encoding
    let mut wfs = CaseWriter::new(&args.out, "fsparse");
    {
        use std::collections::BTreeMap;
        use tensor_compress::format::{compress_dense_as_sparse, decompress_vector, CompressedEntry, CompressedSnapshot, Header};
        let tiny: [u32; 8] = [0x0000_0001, 0x007f_ffff, 0x0080_0000, 0x3586_37bd /* 1e-6 */, 0x3506_37bd /* 5e-7 */, 0xb486_37bd, 0x7fc0_0000, 0x8000_0000];
        let nfs = args.budget(300, 10000);
        for i in 0..nfs {
            let len = if i == 0 { 64 } else { rng.range(1, 40) as usize };
            let d: Vec<u32> = (0..len).map(|j| {
                if i == 0 { match j { 3 => 0x3f80_0000, 10 => 0x3506_37bd, 20 => 0xb486_37bd, 30 => 0x0080_0000, 40 => 0x0000_0040, 50 => 0x3586_37bd, 63 => 0xc040_0000, _ => 0 } }
                else if rng.chance(7, 10) { if rng.chance(1, 8) { 0x8000_0000 } else { 0 } }
                else if rng.chance(1, 2) { *rng.pick(&tiny) } else { f32_bits(&mut rng) }
            }).collect();
            let dense: Vec<f32> = d.iter().map(|b| f32::from_bits(*b)).collect();
            let r = guarded(move || {
                match compress_dense_as_sparse(&dense) {
                    None => (false, vec![], true),
                    Some(cv) => {
                        let snap = CompressedSnapshot {
                            header: Header::new(tensor_compress::CompressionConfig::default(), 1),
                            entries: vec![CompressedEntry { key: "emb:x".to_string(), fields: BTreeMap::from([("v".to_string(), cv)]) }],
                        };
                        let back = snap.serialize().ok().and_then(|b| CompressedSnapshot::deserialize(&b).ok())
                            .and_then(|mut s2| s2.entries.pop()).and_then(|mut e| e.fields.remove("v"))
                            .and_then(|v| decompress_vector(&v).ok());
                        match back { Some(v) => (true, v.iter().map(|f| f.to_bits() as u64).collect(), true), None => (true, vec![], false) }
                    }
                }
            });
            let dn: Vec<u64> = d.iter().map(|b| *b as u64).collect();
            match r {
                Ok((chosen, back, ok)) => {
                    dist.hit(if chosen { "fsparse.sparse_form" } else { "fsparse.dense_kept" });
                    wfs.push(&format!("({}, {}, {}, {})", nl(&dn), b(chosen), nl(&back), b(ok)), &format!("format sparse bits={:x?}", d), chosen);
                }
                Err(p) => hits.push("", &format!("tensor_compress::format panicked on bits {:x?}: {p}", d), json!({"bits": dn})),
            }
        }
    }

    // ---------------------------------------------------------------- tensor_compress::format sparse decoder on forged input
    let mut wfd = CaseWriter::new(&args.out, "fdec");
    {
        use tensor_compress::format::{decompress_vector, CompressedValue};
        for i in 0..args.budget(300, 10000) {
            let dim = *rng.pick(&[0u64, 1, 5, 16, 100]);
            let k = rng.below(12) as usize;
            // corpus first: an out-of-range position followed by several in-range ones (wrapping deltas)
            let ps: Vec<u64> = if i == 0 { vec![5, 1005, 6, 7, 8, 9, 10] } else if i == 1 { vec![3, u64::MAX, 0, 1, 2, 3, 4, 2] } else {
                let mut v: Vec<u64> = (0..k).map(|_| match rng.below(8) {
                    0 => dim + rng.below(2000),
                    1 => u64::MAX - rng.below(3),
                    2 => dim,
                    _ => rng.below(dim.max(1)),
                }).collect();
                if rng.chance(1, 3) { v.sort_unstable(); }
                v
            };
            let dim = if i < 2 { 100 } else { dim };
            let nv = if rng.chance(4, 5) { ps.len() } else { rng.below(ps.len() as u64 + 3) as usize };
            let vs: Vec<u32> = (0..nv).map(|j| if rng.chance(1, 2) { 0x3f80_0000 + j as u32 } else { f32_bits(&mut rng) }).collect();
            let cv = CompressedValue::VectorSparse { dimension: dim as usize, positions: compress_ids(&ps), values: vs.iter().map(|b| f32::from_bits(*b)).collect() };
            let r = guarded(move || decompress_vector(&cv).ok().map(|v| v.iter().map(|f| f.to_bits() as u64).collect::<Vec<u64>>()));
            let rr = match &r { Ok(Some(v)) => Some(nl(v)), _ => None };
            if let Err(p) = &r { dist.hit("fdec.panicked"); let _ = p; }
            dist.hit(if ps.windows(2).all(|w| w[0] < w[1]) { "fdec.sorted" } else { "fdec.unsorted" });
            let vsn: Vec<u64> = vs.iter().map(|b| *b as u64).collect();
            wfd.push(&format!("({}, {}, {}, {})", dim, nl(&ps), nl(&vsn), opt(rr)), &format!("format::decompress_vector VectorSparse dimension={dim} positions={ps:?} value bits={vs:x?}"), !ps.is_empty());
        }
        // arbitrary position BYTES (not produced by any encoder): no panic
        for _ in 0..args.budget(200, 5000) {
            let bytes_: Vec<u8> = (0..rng.below(24)).map(|_| rng.below(256) as u8).collect();
            let dim = rng.below(40) as usize;
            let nv = rng.below(10) as usize;
            let bb = bytes_.clone();
            if let Err(p) = guarded(move || { let cv = CompressedValue::VectorSparse { dimension: dim, positions: bb, values: vec![1.0; nv] }; decompress_vector(&cv).map(|v| v.len()) }) {
                hits.push("", &format!("format::decompress_vector panicked on VectorSparse dimension={dim} position bytes={} values={nv}: {p}", hex(&bytes_)), json!({"bytes": hex(&bytes_), "dim": dim, "values": nv}));
            }
            dist.hit("fdec.random_bytes");
        }
    }

    // ---------------------------------------------------------------- frames
    let mut wf = CaseWriter::new(&args.out, "frame");
    let nf = args.budget(400, 10000);
    for i in 0..nf {
        let msg = if i == 0 {
            // corpus: F-C20-frame (limit 600, compression on, 5000-byte compressible message)
            Message::QueryResponse(QueryResponse { query_id: 1, shard_id: 0, result: vec![7u8; 5000], execution_time_us: 0, success: true, error: None })
        } else {
            gen_message(&mut rng, &mut dist)
        };
        let ser = match bitcode::serialize(&msg) {
            Ok(s) => s,
            Err(_) => continue,
        };
        // premise: bitcode and lz4 are inverse pairs on this value
        match bitcode::deserialize::<Message>(&ser) {
            Ok(m2) if format!("{m2:?}") == format!("{msg:?}") => {}
            _ => hits.push("", "bitcode round trip of a Message differs", json!({"msg": format!("{msg:?}")})),
        }
        let z = compression::compress(&ser, CompressionMethod::Lz4);
        match compression::decompress(&z, CompressionMethod::Lz4) {
            Ok(d) if d == ser => {}
            _ => hits.push("", "lz4 round trip differs", json!({"len": ser.len()})),
        }
        let l = ser.len() as u64;
        let max = if i == 0 {
            600
        } else if i == 1 {
            l // corpus: serialized size exactly at the limit, sent uncompressed (frame content = limit + 1)
        } else {
            match rng.below(6) {
                0 => l.saturating_sub(1).max(1),
                1 => l,
                2 => l + 1,
                3 => (z.len() as u64 + 1).max(1),
                4 => z.len() as u64 + 2,
                _ => 16 * 1024 * 1024,
            }
        };
        let enabled = i == 0 || (i != 1 && rng.chance(2, 3));
        let lz4 = i == 0 || rng.chance(3, 4);
        let min_size = if i == 0 { 1 } else { *rng.pick(&[0u64, 1, 64, 256, 100000]) };
        let cfg = CompressionConfig::default().with_method(if lz4 { CompressionMethod::Lz4 } else { CompressionMethod::None }).with_min_size(min_size as usize);
        let mut codec = LengthDelimitedCodec::with_compression(max as usize, cfg);
        codec.set_compression_enabled(enabled);
        let en = codec.compression_enabled();
        let v1 = codec.encode(&msg);
        let v2 = codec.encode_v2(&msg);
        let d1 = match &v1 { Ok(fr) => dec_code(&msg, codec.decode_payload(&fr[4..])), Err(_) => 4 };
        let d2 = match &v2 { Ok(fr) => dec_code(&msg, codec.decode_payload_v2(&fr[4..])), Err(_) => 4 };
        // the transport path: the reader on the whole frame (length prefix checked against the limit first)
        let r1 = match &v1 { Ok(fr) => read_code(&msg, &codec, fr.clone(), false), Err(_) => 4 };
        let r2 = match &v2 { Ok(fr) => read_code(&msg, &codec, fr.clone(), true), Err(_) => 4 };
        if matches!(&v2, Ok(_)) && r2 != 0 { dist.hit("frame.v2.reader_rejects_own_frame"); }
        dist.hit(match (&v2, d2) {
            (Ok(fr), 0) if fr[4] == 1 => "frame.v2.ok.compressed",
            (Ok(_), 0) => "frame.v2.ok.plain",
            (Ok(_), _) => "frame.v2.accepted_then_rejected",
            (Err(_), _) => "frame.v2.too_large",
        });
        let term = format!(
            "(Codec {} {} {} {}, {}, {}, {}, {}, {}, {}, {}, {})",
            max, b(en), min_size, b(lz4), bytes(&ser), bytes(&z), fres(&v1), fres(&v2), d1, d2, r1, r2
        );
        wf.push(&term, &format!("frame max={max} comp={en} lz4={lz4} min_size={min_size} msg={}", &format!("{msg:?}").chars().take(200).collect::<String>()), true);
    }

    // ---------------------------------------------------------------- stream split on arbitrary bytes
    let mut wp = CaseWriter::new(&args.out, "split");
    let rt = tokio::runtime::Builder::new_current_thread().build().unwrap();
    for _ in 0..args.budget(300, 10000) {
        let max = *rng.pick(&[4u64, 16, 64, 1024]);
        let codec = LengthDelimitedCodec::new(max as usize);
        let mut bs: Vec<u8> = match rng.below(4) {
            0 => (0..rng.below(8)).map(|_| rng.below(256) as u8).collect(),
            _ => {
                let claimed = match rng.below(5) { 0 => 0u32, 1 => max as u32 + 1, 2 => u32::MAX, _ => rng.below(max + 2) as u32 };
                let mut v = claimed.to_be_bytes().to_vec();
                let have = rng.below(max + 3) as usize;
                v.extend((0..have).map(|_| rng.below(256) as u8));
                v
            }
        };
        if rng.chance(1, 10) {
            bs.truncate(rng.below(4) as usize);
        }
        let data = bs.clone();
        let res = guarded(move || {
            let mut cur = Cursor::new(data);
            rt_block(&codec, &mut cur)
        });
        let cls = match res {
            Ok(c) => c,
            Err(p) => {
                hits.push("", &format!("read_frame panicked on {}: {p}", hex(&bs)), json!({"bytes": hex(&bs), "max": max}));
                continue;
            }
        };
        // the other three readers on the same bytes: the timeout variant must classify like its plain twin
        // (v2 readers differ from v1 only after the length prefix: a flags byte is interpreted), none may panic
        {
            let mut classes = vec![cls];
            for which in 1u8..4 {
                let data = bs.clone();
                let codec2 = LengthDelimitedCodec::new(max as usize);
                match guarded(move || { let mut cur = Cursor::new(data); reader_class(&codec2, &mut cur, which) }) {
                    Ok(c) => classes.push(c),
                    Err(p) => { hits.push("", &format!("frame reader #{which} panicked on {}: {p}", hex(&bs)), json!({"bytes": hex(&bs), "max": max, "reader": which})); classes.push(9); }
                }
            }
            if classes[1] != classes[0] || classes[3] != classes[2] {
                hits.push("", &format!("frame readers disagree on max={max} bytes={}: read_frame {} / with_timeout {} / v2 {} / v2_with_timeout {}", hex(&bs), classes[0], classes[1], classes[2], classes[3]), json!({"bytes": hex(&bs), "max": max, "classes": classes}));
            }
            // a length prefix above the limit is refused by every reader, one at or below it by none
            if bs.len() >= 4 {
                let claimed = u32::from_be_bytes([bs[0], bs[1], bs[2], bs[3]]) as u64;
                for (k, c) in classes.iter().enumerate() {
                    if (claimed > max) != (*c == 2) {
                        hits.push("", &format!("frame reader #{k} size rule: claimed length {claimed}, limit {max}, class {c} on {}", hex(&bs)), json!({"bytes": hex(&bs), "max": max, "reader": k}));
                    }
                }
            }
        }
        dist.hit(&format!("split.class.{cls}"));
        wp.push(&format!("(Codec {} false 0 false, {}, {})", max, bytes(&bs), cls), &format!("read_frame max={max} bytes={}", hex(&bs)), bs.len() >= 4);
    }
    drop(rt);

    // ---------------------------------------------------------------- decoder fuzzing (implementation only)
    let mut fuzz_total = 0u64;
    let nfz = args.budget(3000, 200000);
    let codec = LengthDelimitedCodec::new(4096);
    for _ in 0..nfz {
        let msg = gen_message(&mut rng, &mut Dist::default());
        let mut fr = match codec.encode_v2(&msg) { Ok(f) => f, Err(_) => continue };
        let mut payload: Vec<u8> = fr.split_off(4);
        match rng.below(4) {
            0 => { let k = rng.below(payload.len() as u64 + 1) as usize; payload.truncate(k); dist.hit("fuzz.truncate"); }
            1 => { if !payload.is_empty() { let k = rng.below(payload.len() as u64) as usize; payload[k] ^= 1 << rng.below(8); } dist.hit("fuzz.bitflip"); }
            2 => { payload = (0..rng.below(64)).map(|_| rng.below(256) as u8).collect(); dist.hit("fuzz.random"); }
            _ => { // lz4 flag with a hostile claimed size
                let mut p = vec![1u8];
                p.extend_from_slice(&(*rng.pick(&[0u32, 1, 4097, 16 * 1024 * 1024, 16 * 1024 * 1024 + 1, u32::MAX])).to_le_bytes());
                p.extend((0..rng.below(16)).map(|_| rng.below(256) as u8));
                payload = p;
                dist.hit("fuzz.lz4_claimed_size");
            }
        }
        fuzz_total += 1;
        let p2 = payload.clone();
        let c2 = codec.clone();
        if let Err(p) = guarded(move || { let _ = c2.decode_payload_v2(&p2); let _ = c2.decode_payload(&p2); let _ = decompress_ids(&p2); }) {
            hits.push("", &format!("decoder panicked on payload {}: {p}", hex(&payload)), json!({"payload": hex(&payload)}));
        }
    }

    let mut fz = CaseWriter::new(&args.out, "fuzz_impl_only");
    fz.count = fuzz_total as usize;
    fz.nontrivial = 0;
    write_meta(
        &args.out,
        json!({
            "property": "C20", "seed": args.seed, "tier": args.tier,
            "kinds": [w.summary(), wd.summary(), wl.summary(), wr.summary(), ws.summary(), wf.summary(), wp.summary(), wv.summary(), wb.summary(), wfs.summary(), wpt.summary(), wfd.summary(), wss.summary(), fz.summary()],
            "distribution": dist.json(),
            "hits": hits.0,
            "nontrivial_rule": "varint/delta/rle/sparse: non-empty (delta, rle: >= 2 elements) and distinct; frame: every case (a real Message through both protocol versions under a limit chosen around its serialized/compressed size); split: at least a full length prefix; fuzz_impl_only cases are not counted as non-trivial",
        }),
    );
}

/// outcome of the readers on one encoded frame: 0 = the message that was sent, 1 = another
/// message, 2 = MessageTooLarge, 3 = any other error or end of stream.  All transport read paths are
/// driven -- read_frame(_v2), read_frame(_v2)_with_timeout, each on the bytes `encode(_v2)` returned
/// and on the bytes write_frame(_v2)(_with_timeout) put on the wire -- and the worst code is reported, so
/// a reader that refuses (or garbles) what its own writer produced shows up as a non-zero code.
fn read_code(sent: &Message, codec: &LengthDelimitedCodec, frame: Vec<u8>, v2: bool) -> u64 {
    let rt = tokio::runtime::Builder::new_current_thread().enable_time().build().unwrap();
    let tmo = std::time::Duration::from_secs(20);
    let code = |r: Result<Option<Message>, TcpError>| -> u64 {
        match r {
            Ok(Some(m)) => if format!("{m:?}") == format!("{sent:?}") { 0 } else { 1 },
            Ok(None) => 3,
            Err(TcpError::MessageTooLarge { .. }) => 2,
            Err(_) => 3,
        }
    };
    let mut wires: Vec<Vec<u8>> = vec![frame.clone()];
    // what the writers put on the wire must be the encoded frame
    let mut w1: Vec<u8> = vec![];
    let mut w2: Vec<u8> = vec![];
    let (a, b) = if v2 {
        (rt.block_on(codec.write_frame_v2(&mut w1, sent)).is_ok(), rt.block_on(codec.write_frame_v2_with_timeout(&mut w2, sent, tmo)).is_ok())
    } else {
        (rt.block_on(codec.write_frame(&mut w1, sent)).is_ok(), rt.block_on(codec.write_frame_with_timeout(&mut w2, sent, tmo)).is_ok())
    };
    let mut worst = 0u64;
    if !a || !b || w1 != frame || w2 != frame {
        worst = 3; // a writer refused or altered a frame encode accepted
    }
    wires.push(w1);
    wires.push(w2);
    if v2 {
        // the flags byte of the frame, not the receiver's own configuration, says how to decode it: peers with
        // compression switched off / method None / another threshold must read the same message
        let maxl = codec.max_frame_length();
        let mut off = LengthDelimitedCodec::with_compression(maxl, CompressionConfig::default().with_method(CompressionMethod::None));
        off.set_compression_enabled(false);
        let plain = LengthDelimitedCodec::new(maxl);
        let eager = LengthDelimitedCodec::with_compression(maxl, CompressionConfig::default().with_method(CompressionMethod::Lz4).with_min_size(0));
        for peer in [&off, &plain, &eager] {
            let mut c = Cursor::new(frame.clone());
            worst = worst.max(code(rt.block_on(peer.read_frame_v2(&mut c))));
            worst = worst.max(code(peer.decode_payload_v2(&frame[4..]).map(Some)));
        }
    }
    for w in wires {
        let mut c1 = Cursor::new(w.clone());
        let mut c2 = Cursor::new(w);
        let (r1, r2) = if v2 {
            (rt.block_on(codec.read_frame_v2(&mut c1)), rt.block_on(codec.read_frame_v2_with_timeout(&mut c2, tmo)))
        } else {
            (rt.block_on(codec.read_frame(&mut c1)), rt.block_on(codec.read_frame_with_timeout(&mut c2, tmo)))
        };
        worst = worst.max(code(r1)).max(code(r2));
    }
    worst
}

/// class of a reader's outcome on a byte string: 0 = payload extracted (decoded or not
/// deserializable), 2 = MessageTooLarge, 3 = invalid / eof / short read.  `which`: 0 read_frame,
/// 1 read_frame_with_timeout, 2 read_frame_v2, 3 read_frame_v2_with_timeout
fn reader_class(codec: &LengthDelimitedCodec, cur: &mut Cursor<Vec<u8>>, which: u8) -> u64 {
    let rt = tokio::runtime::Builder::new_current_thread().enable_time().build().unwrap();
    let tmo = std::time::Duration::from_secs(20);
    let r = match which {
        0 => rt.block_on(codec.read_frame(cur)),
        1 => rt.block_on(codec.read_frame_with_timeout(cur, tmo)),
        2 => rt.block_on(codec.read_frame_v2(cur)),
        _ => rt.block_on(codec.read_frame_v2_with_timeout(cur, tmo)),
    };
    match r {
        Ok(Some(_)) => 0,
        Ok(None) => 3,
        Err(TcpError::MessageTooLarge { .. }) => 2,
        Err(TcpError::InvalidFrame(_)) => 3,
        Err(TcpError::Io(_)) => 3,
        Err(_) => 0, // payload was read in full and handed to the deserializer, which rejected it
    }
}
fn rt_block(codec: &LengthDelimitedCodec, cur: &mut Cursor<Vec<u8>>) -> u64 {
    reader_class(codec, cur, 0)
}
