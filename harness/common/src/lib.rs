//! Shared pieces of the correspondence harness: one PRNG state per run (SplitMix64, seeded by
//! VERIF_SEED so disagreements replay exactly), Gallina term printing, case/meta writers.
use std::collections::BTreeMap;
use std::fmt::Write as _;
use std::fs;
use std::io::Write as _;
use std::path::{Path, PathBuf};

pub use serde_json::{json, Value};

// ------------------------------------------------------------------------------------ PRNG
#[derive(Clone)]
pub struct Rng(pub u64);
impl Rng {
    pub fn new(seed: u64) -> Self {
        Rng(seed ^ 0x9E37_79B9_7F4A_7C15)
    }
    pub fn next(&mut self) -> u64 {
        self.0 = self.0.wrapping_add(0x9E37_79B9_7F4A_7C15);
        let mut z = self.0;
        z = (z ^ (z >> 30)).wrapping_mul(0xBF58_476D_1CE4_E5B9);
        z = (z ^ (z >> 27)).wrapping_mul(0x94D0_49BB_1331_11EB);
        z ^ (z >> 31)
    }
    /// uniform in 0..n (n > 0)
    pub fn below(&mut self, n: u64) -> u64 {
        self.next() % n
    }
    pub fn range(&mut self, lo: u64, hi_incl: u64) -> u64 {
        lo + self.below(hi_incl - lo + 1)
    }
    pub fn chance(&mut self, num: u64, den: u64) -> bool {
        self.below(den) < num
    }
    pub fn pick<'a, T>(&mut self, xs: &'a [T]) -> &'a T {
        &xs[self.below(xs.len() as u64) as usize]
    }
    pub fn shuffle<T>(&mut self, xs: &mut [T]) {
        for i in (1..xs.len()).rev() {
            let j = self.below(i as u64 + 1) as usize;
            xs.swap(i, j);
        }
    }
    pub fn fork(&mut self) -> Rng {
        Rng(self.next())
    }
}

// ------------------------------------------------------------------------------------ Gallina printing
pub fn n(x: u64) -> String {
    format!("{x}")
}
pub fn n128(x: u128) -> String {
    format!("{x}")
}
/// Z literal (parenthesised when negative)
pub fn z(x: i128) -> String {
    if x < 0 {
        format!("({x})%Z")
    } else {
        format!("{x}%Z")
    }
}
pub fn b(x: bool) -> String {
    if x { "true".into() } else { "false".into() }
}
pub fn list<I: IntoIterator<Item = String>>(xs: I) -> String {
    let v: Vec<String> = xs.into_iter().collect();
    format!("[{}]", v.join("; "))
}
pub fn opt(x: Option<String>) -> String {
    match x {
        Some(s) => format!("(Some {s})"),
        None => "None".into(),
    }
}
pub fn tup(xs: &[String]) -> String {
    format!("({})", xs.join(", "))
}
pub fn app(f: &str, args: &[String]) -> String {
    if args.is_empty() {
        f.to_string()
    } else {
        format!("({} {})", f, args.join(" "))
    }
}
pub fn bytes(xs: &[u8]) -> String {
    list(xs.iter().map(|x| format!("{x}")))
}

// ------------------------------------------------------------------------------------ CLI + output
pub struct Args {
    pub seed: u64,
    pub tier: String,
    pub out: PathBuf,
    pub replay: Option<PathBuf>,
    pub extra: BTreeMap<String, String>,
}
impl Args {
    pub fn parse() -> Args {
        let mut seed = std::env::var("VERIF_SEED").ok().and_then(|s| s.parse().ok()).unwrap_or(1u64);
        let mut tier = std::env::var("VERIF_TIER").unwrap_or_else(|_| "quick".into());
        let mut out = PathBuf::from("out");
        let mut replay = None;
        let mut extra = BTreeMap::new();
        let a: Vec<String> = std::env::args().collect();
        let mut i = 1;
        while i < a.len() {
            match a[i].as_str() {
                "--seed" => { seed = a[i + 1].parse().expect("seed"); i += 2; }
                "--tier" => { tier = a[i + 1].clone(); i += 2; }
                "--out" => { out = PathBuf::from(&a[i + 1]); i += 2; }
                "--replay" => { replay = Some(PathBuf::from(&a[i + 1])); i += 2; }
                s if s.starts_with("--") && i + 1 < a.len() => { extra.insert(s[2..].to_string(), a[i + 1].clone()); i += 2; }
                _ => { i += 1; }
            }
        }
        fs::create_dir_all(&out).expect("create out dir");
        Args { seed, tier, out, replay, extra }
    }
    pub fn thorough(&self) -> bool {
        self.tier == "thorough"
    }
    /// quick/thorough budget
    pub fn budget(&self, quick: usize, thorough: usize) -> usize {
        if self.thorough() { thorough } else { quick }
    }
}

/// One stream of cases of one kind: `<out>/<kind>.cases` holds one Gallina term per line, and
/// `<out>/<kind>.human` the same case in readable form (used in replays and evidence samples).
pub struct CaseWriter {
    kind: String,
    cases: fs::File,
    human: fs::File,
    pub count: usize,
    pub nontrivial: usize,
    distinct: std::collections::HashSet<u64>,
}
impl CaseWriter {
    pub fn new(out: &Path, kind: &str) -> CaseWriter {
        CaseWriter {
            kind: kind.to_string(),
            cases: fs::File::create(out.join(format!("{kind}.cases"))).unwrap(),
            human: fs::File::create(out.join(format!("{kind}.human"))).unwrap(),
            count: 0,
            nontrivial: 0,
            distinct: Default::default(),
        }
    }
    /// `term` must be a single-line Gallina term; `human` a single-line description;
    /// `nontrivial` = by the property's own stated rule.
    pub fn push(&mut self, term: &str, human: &str, nontrivial: bool) {
        debug_assert!(!term.contains('\n'));
        writeln!(self.cases, "{term}").unwrap();
        writeln!(self.human, "{}", human.replace('\n', " ")).unwrap();
        self.count += 1;
        let h = fxhash(term.as_bytes());
        if self.distinct.insert(h) && nontrivial {
            self.nontrivial += 1;
        }
    }
    pub fn summary(&self) -> Value {
        json!({"kind": self.kind, "cases": self.count, "distinct_nontrivial": self.nontrivial, "distinct": self.distinct.len()})
    }
}

pub fn fxhash(bs: &[u8]) -> u64 {
    let mut h: u64 = 0xcbf2_9ce4_8422_2325;
    for b in bs {
        h ^= *b as u64;
        h = h.wrapping_mul(0x0000_0100_0000_01B3);
    }
    h
}

/// Distribution counters printed into the evidence.
#[derive(Default)]
pub struct Dist(pub BTreeMap<String, u64>);
impl Dist {
    pub fn hit(&mut self, k: &str) {
        *self.0.entry(k.to_string()).or_insert(0) += 1;
    }
    pub fn add(&mut self, k: &str, v: u64) {
        *self.0.entry(k.to_string()).or_insert(0) += v;
    }
    pub fn json(&self) -> Value {
        json!(self.0)
    }
}

/// Direct (implementation-only) oracle hits found by the harness itself: these are property
/// violations demonstrated on the real code without reference to the model.
#[derive(Default)]
pub struct Hits(pub Vec<Value>);
impl Hits {
    pub fn push(&mut self, class: &str, what: &str, replay: Value) {
        self.0.push(json!({"class": class, "what": what, "replay": replay}));
    }
}

pub fn write_meta(out: &Path, meta: Value) {
    let mut f = fs::File::create(out.join("meta.json")).unwrap();
    f.write_all(serde_json::to_string_pretty(&meta).unwrap().as_bytes()).unwrap();
}

pub fn hex(bs: &[u8]) -> String {
    let mut s = String::with_capacity(bs.len() * 2);
    for b in bs {
        write!(s, "{b:02x}").unwrap();
    }
    s
}

/// Run `f`, catching panics; returns Err(message) on panic.
pub fn guarded<T, F: FnOnce() -> T + std::panic::UnwindSafe>(f: F) -> Result<T, String> {
    std::panic::catch_unwind(f).map_err(|e| {
        if let Some(s) = e.downcast_ref::<&str>() {
            s.to_string()
        } else if let Some(s) = e.downcast_ref::<String>() {
            s.clone()
        } else {
            "panic".to_string()
        }
    })
}
pub fn quiet_panics() {
    std::panic::set_hook(Box::new(|_| {}));
}
