# C01 -- Raft safety (tensor_chain/src/raft.rs)
CFG = dict(
    dirs=["Common", "C01"], gen=True,
    run_targets=["C01/Run.vo"], proof_targets=["C01/Props.vo"], props="C01/Props.v",
    gen_obligations=[
        "Inst.gen_quorum_majority: two quorums of the size lib.rs computes always intersect",
        "Inst.gen_quorum_within: the quorum size never exceeds the cluster size (n >= 1)",
        "Inst.gen_ack_verified: the follower's match_index is within the prefix the request verified",
        "Inst.gen_commit_verified: the follower's commit index is monotone and within that prefix",
        "Inst.gen_stale_ok: AppendEntriesResponse from an earlier term is dropped",
        "Inst.gen_vote_up_to_date: handle_request_vote's log_ok implies the candidate's log is at least as up to date",
        "Inst.gen_prev_sound: handle_append_entries' prev-entry test accepts only a matching term",
        "Inst.gen_pick_quorum: try_advance_commit_index picks a position a quorum of the match values reach",
        "Inst.gen_commit_current_term: try_advance_commit_index commits only an entry of the current term",
        "Inst.gen_entries_with_known_prev: get_entries_for_follower sends entries only with a prev entry still in the log",
        "Inst.gen_finalize_within_commit: finalize_to accepts only heights the node has committed",
    ],
    crate="nvh_c01",
    header=H + "From NV.C01 Require Import Model Run.\nOpen Scope N_scope.",
    kinds={"sched": ("sched_case", "check_sched"), "compact": ("compact_case", "check_compact")},
    known_classes={},
    shard=8,
    rule="seeded schedules (message delivery in any order with duplication and loss, timeouts with and without pre-vote, proposals, heartbeats, leadership-transfer TimeoutNow, finalize + log compaction with 0-2 trailing entries, crash/restart from the WAL) over 3- and 5-node clusters of real WAL-backed RaftNodes whose transport is captured by the harness; pre-vote / fast-path / geometric tie-break / adaptive backoff each on and off",
    trusted_base=COMMON_TB + [
        "guarded read-only hook RaftNode::verif_log_image / verif_voted_for (cfg neumann_verif) to observe the log",
        "modelled, not verified: fixed membership; log compaction (finalize_to / create_snapshot / truncate_log: log_base_index, compacted prev treated as consistent, compacted entries skipped, entries sent only with a nameable prev, non-successor entries refused) IS in the executable model and inside the theorems (the model keeps the whole log plus the base; the implementation's array is the suffix); snapshot install / chunked snapshot transfer is not modelled and not exercised (no production code sends SnapshotRequest); leadership transfer is modelled at the receiving side (handle_timeout_now = start_election at once; its believed-leader/term guard is a refusal oracle), the leader-side transfer bookkeeping only blocks proposals (refusal oracle); wall-clock and float guards (pre-vote timeout_elapsed, candidate health, geometric tie-break, is_write_safe) are refusal oracles whose outcome is taken from the implementation's answer (they can only refuse); the tokio heartbeat task, the TCP transport and HashMap iteration order are outside the model (peers are iterated in the order given at construction, as the code does)",
    ],
    assumptions=["crash = the node object is dropped and rebuilt with RaftNode::with_wal from its own WAL file (C10 covers torn writes of that file)"],
)
MANIFEST = dict(
    text="All four clauses of the statement are Coq theorems about the executable cluster model, for every cluster size, every schedule (deliveries in any order with duplication and loss, timeouts with and without pre-vote, proposals, heartbeats, refusal oracles, crash/restart) and for the quorum size, acknowledgement, follower-commit and stale-response rules regenerated from the source on every run: election safety (refinement to an abstract voting protocol + quorum intersection), log matching (ghost ledger of leader logs), leader completeness for quorum-acknowledged entries, state-machine safety across time, with log compaction steps in the schedules (C01_state_machine_safety: whatever one node reported committed up to k after a schedule is what any node holds and reports up to k after any continuation; C01_leader_holds_committed: every later leader holds it). The model is replayed against clusters of real WAL-backed RaftNodes on seeded and corpus schedules (every observation and every message must agree), and the four safety clauses are also evaluated as oracles on the implementation's own observations, including a corpus schedule that broke leader completeness before the ack-rule repair.",
    note="Trusted: Coq kernel, rs2v.py + gen_C01.py (ack rule, follower-commit rule, stale-ack rule, quorum size, vote up-to-date rule, prev-entry test, commit position and term guard), harness + driver, the read-only hook. Modelled, not verified: fixed membership; no snapshot install/transfer; timing/float guards and the TimeoutNow guard are refusal oracles.",
)
