# C01 -- Raft safety (tensor_chain/src/raft.rs)
CFG = dict(
    dirs=["Common", "C01"], gen=True,
    run_targets=["C01/Run.vo"], proof_targets=["C01/Props.vo"], props="C01/Props.v",
    gen_obligations=[
        "Inst.gen_quorum_majority: two quorums of the size lib.rs computes always intersect",
        "Inst.gen_ack_verified: the follower's match_index is within the prefix the request verified",
        "Inst.gen_commit_verified: the follower's commit index is monotone and within that prefix",
        "Inst.gen_stale_ok: AppendEntriesResponse from an earlier term is dropped",
    ],
    crate="nvh_c01",
    header=H + "From NV.C01 Require Import Model Run.\nOpen Scope N_scope.",
    kinds={"sched": ("sched_case", "check_sched")},
    known_classes={},
    shard=8,
    rule="seeded schedules (message delivery in any order with duplication and loss, timeouts with and without pre-vote, proposals, heartbeats, crash/restart from the WAL) over 3- and 5-node clusters of real WAL-backed RaftNodes whose transport is captured by the harness; pre-vote / fast-path / geometric tie-break / adaptive backoff each on and off",
    trusted_base=COMMON_TB + [
        "guarded read-only hook RaftNode::verif_log_image / verif_voted_for (cfg neumann_verif) to observe the log",
        "modelled, not verified: fixed membership, no log compaction / snapshot install (log_base_index = 0), no leadership transfer; wall-clock and float guards (pre-vote timeout_elapsed, candidate health, geometric tie-break, is_write_safe) are refusal oracles whose outcome is taken from the implementation's answer (they can only refuse); the tokio heartbeat task, the TCP transport and HashMap iteration order are outside the model (peers are iterated in the order given at construction, as the code does)",
    ],
    assumptions=["crash = the node object is dropped and rebuilt with RaftNode::with_wal from its own WAL file (C10 covers torn writes of that file)"],
)
MANIFEST = dict(
    text="Election safety over the whole history of every schedule is a Coq theorem about the executable cluster model (refinement to an abstract voting protocol + quorum intersection), for every cluster size and for the quorum size and acknowledgement rules regenerated from the source on every run. The model is replayed against clusters of real RaftNodes on seeded schedules (every observation and every message must agree), and the four safety properties of the statement (one leader per term, log matching, committed entries never contradicted, later leaders hold committed entries) are evaluated as oracles on the implementation's own observations, including a corpus schedule that broke leader completeness before the ack-rule repair.",
    note="Trusted: Coq kernel, rs2v.py + gen_C01.py (ack rule, stale-ack rule, quorum size), harness + driver, the read-only hook. Log matching / leader completeness / state-machine safety theorems: see Props.v for what is proved in full and what is labelled partial.",
)
