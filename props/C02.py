# C02 -- durable store: acknowledged writes survive any crash, in order (tensor_store wal.rs / slab_router.rs)
CFG = dict(
    dirs=["Common", "C02"], gen=True,
    run_targets=["C02/Run.vo"], proof_targets=["C02/Props.vo"], props="C02/Props.v",
    gen_obligations=["Inst.gen_cfg_fixed: the configuration read from the source (tail repair on open, index entry dropped on delete, replay re-creates index entries, MetadataSet logged first, checkpoint step order) is the one the theorems are proved for"],
    crate="nvh_c02",
    header=H + "From NV.Common Require Import WalFormat.\nFrom NV.C02 Require Import Model Run.\nOpen Scope N_scope.",
    kinds={"gens": ("gens_case", "check_gens"), "ckpt": ("ckpt_case", "check_ckpt")},
    known_classes={},
    shard=3,
    rule="seeded put_durable/delete_durable sequences over 10 keys of all five key classes and 13 value shapes (+ short and 384-dim embeddings) on the real TensorStore under SyncMode Immediate / Batched / Manual (explicit sync calls); the real WAL file truncated at EVERY byte offset of each generation's appends, recovered, observed (get of every key + scan); up to three crash generations; kind ckpt: the real snapshot + log files copied at the step boundaries inside checkpoint() (hook b979a711: snapshot saved / every byte of the marker record / log truncated), recovered, then more calls crashed at every byte and recovered with the snapshot; implementation-only probe of log rotation",
    trusted_base=COMMON_TB + [
        "modelled, not verified: bitcode payload (de)serialisation (premise deser (ser e) = Some e; the harness supplies the real payload bytes and the real replay decodes them), crc32fast (concrete Gallina CRC-32 compared byte-for-byte with every real log file), the file system below 'a file is a byte string; a crash keeps a prefix of unsynced appends; set_len/rename/File::create are atomic'; HashMap iteration order never observed (observations are per key id)",
    ],
    assumptions=["cache-class keys are outside the property (documented non-durable) and are not observed", "theorems cover, for every crash byte and any number of crashes, put_durable/delete_durable sequences where only embedding-class keys carry an `_embedding` (class plain) under immediate-sync semantics; checkpoint step boundaries, non-embedding keys with `_embedding`, Batched/Manual sync and rotation are covered by the correspondence check + oracle only", "the embedding slab dimension is the default 384 (the only one reachable through TensorStore::open_durable / recover)"],
)
MANIFEST = dict(
    text="WAL record framing, replay and crash-prefix recovery for EVERY byte offset, tail repair on open and the multi-generation statement are Coq theorems (Common/WalFormat.v, all inputs); on top, the durable store model (entity index, embedding slab, metadata, put/delete_durable logging, from_entries, recover, checkpoint) with theorems, for all call sequences of the proved class, every crash byte and any number of crashes: recovery never fails, the records a call logs replay to exactly its live effect, and the recovered store shows for every key what the live store showed after p calls with p >= the number of acknowledged calls; the model is compared with the real TensorStore at every truncation offset of the real log over up to three crash generations (SyncMode Immediate/Batched/Manual), at every step boundary and marker byte inside checkpoint(), and the property oracle is evaluated on the implementation's own observations.",
    note="Trusted: Coq kernel, translator gen_C02.py (source facts -> model configuration), harness + driver. Modelled not verified: bitcode, crc32fast (compared byte-for-byte), file system atomicity assumptions, snapshot file format (C07).",
)
