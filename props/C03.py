# C03 -- two-phase commit agreement (tensor_chain/src/distributed_tx.rs DistributedTxCoordinator / TxParticipant)
CFG = dict(
    dirs=["Common", "C03"], gen=True,
    run_targets=["C03/Run.vo"], proof_targets=["C03/Props.vo"], props="C03/Props.v",
    gen_obligations=[
        "Inst.gen_c03_spec: commit is gated on phase == Prepared, record_vote on phase == Preparing, prepare does not write the store, abort re-applies the undo log, the participant refuses a Prepare for a transaction it already decided and records decisions on commit/abort, cleanup_timeouts spares Committing transactions and coordinator abort() refuses them, recover() assigns a phase only inside the Preparing/Prepared arms and Committing only under all_yes(), the participant sweeps cleanup_stale/recover never touch the decided set, participant abort() remembers the transaction whether or not it was prepared there, apply_operations never leaves its loop early (the facts the model's coordinator/participant steps encode)",
    ],
    crate="nvh_c03", shard=60,
    header=H + "From NV.Common Require Import LockTable.\nFrom NV.C03 Require Import Model Run.\nOpen Scope N_scope.",
    kinds={"sched": ("c03_case", "check_2pc")},
    known_classes={0: "undo-after-foreign-commit", 1: "presumed-abort-after-yes"},
    rule="seeded message schedules (loss, duplication, reordering, late and duplicate votes, stray votes from non-participant shards, re-sent votes with different content for a shard that already voted, commit messages arriving after the participant's key locks expired, delayed duplicate Prepare+Commit of a transaction arriving after a later transaction committed the same key, stale locks of never-resolved transactions, coordinator timeouts at any point, coordinator recover() + get_pending_decisions() broadcasts and complete_commit/complete_abort at any point (before and after the deadline, repeated), participant housekeeping sweeps cleanup_stale(t)/recover(t) at any point (also between the end of a transaction and the arrival of its delayed duplicates), 1-3 concurrent transactions over 2-3 shards, participant lock expiry through the clock hook; operations Put / Delete / CompareAndSwap with matching and non-matching expectations; an Abort overtaking the Prepare) on one real DistributedTxCoordinator and real TxParticipants, and on the Gallina model",
    trusted_base=COMMON_TB + [
        "guarded clock hook tensor_chain::distributed_tx::verif_clock (commit 317762a3) replaces wall-clock reads by an explicit `now`",
        "modelled, not verified: the message bag and the driver (who calls commit/abort/cleanup_timeouts and forwards the resulting broadcasts) are the harness's, mirroring cluster.rs / the integration tests; TensorStore as key -> one-byte value; HashMap as association list (cleanup_timeouts / take_pending_aborts order canonicalised by sorting on both sides); transaction ids and lock handles renamed to small numbers in order of issue; the TxWal and the delta-similarity arithmetic are outside the model (deltas are zero, or identical one-hot vectors to force the cross-shard-conflict abort)",
    ],
    assumptions=[
        "alphabet: coordinator begin/record_vote/commit/abort/cleanup_timeouts/take_pending_aborts/recover/get_pending_decisions/complete_commit/complete_abort and participant prepare/commit/abort/cleanup_stale/recover; coordinator.force_resolve / release_orphaned_locks (partition merge) and a coordinator restart (save_to_store/load_from_store, WAL: C13) are outside",
        "a shard on which two prepared transactions share a key (possible only after a lock expiry) is never swept: the order in which one sweep drops several transactions is the HashMap's",
        "participants never fail a store write (in-memory TensorStore), so TxParticipant::commit's rollback branch is not exercised",
    ],
)
MANIFEST = dict(
    text="One decision per transaction, commit only after every participant answered Yes, writes applied only under a commit decision, no applied/discarded split (for transactions discarded on an abort message; participant housekeeping that drops a Yes-voted transaction is the recorded class presumed-abort-after-yes, refuted by witness), a transaction that recover() moved to Committing carries the commit decision for good, a transaction applied at most once per shard whatever is duplicated or delayed, and abort leaves the shard's data untouched unless another transaction committed on the key since the prepare (the known undo-after-foreign-commit class, refuted by witness without the guard) are Coq theorems over a model of coordinator + participants + lossy/duplicating/reordering message bag for all event schedules; the model is compared event by event with the real DistributedTxCoordinator and TxParticipants under seeded schedules with a controlled clock.",
    note="Trusted: Coq kernel, gen_C03.py, harness (message bag and driver) + Python driver, the clock hook. Modelled not verified: TensorStore as a key-value map, hash containers as lists, TxWal and delta arithmetic outside.",
)
