# C04 -- relational queries return exactly the rows satisfying the condition under every strategy
CFG = dict(
    dirs=["Common", "C04"], gen=True,
    run_targets=["C04/Run.vo"], proof_targets=["C04/Props.vo"], props="C04/Props.v",
    gen_obligations=[
        "Inst.gen_norm: Value::hash_key normalises the sign of a float zero (key respects ==)",
        "Inst.gen_index_path: try_index_lookup dispatch, re-check of candidates, offset/limit after re-check, omitted columns indexed as NULL",
        "Inst.gen_ordered_key: OrderedFloat::cmp identifies -0.0 with +0.0 (NaNs equal and least, otherwise partial_cmp), as the model's ordered key does",
        "Inst.gen_no_shortcut: the index paths of select / select_with_limit / count / count_column return only the re-checked result",
        "Inst.gen_vector_path: vectorised kernels clear NULL cells (Ne keeps them), apply the alive mask, leave True to the row path, compare floats exactly",
    ],
    crate="nvh_c04",
    header=H + "From NV.C04 Require Import Types Model Run.\nOpen Scope N_scope.",
    kinds={"scen": ("scen_case", "check_scen"), "budget": ("scen_case", "check_budget")},
    known_classes={},
    shard=12,
    rule="seeded schemas (1-3 columns over Int/Float/String/Bool, nullable or not), DML/DDL traces and condition trees (extreme ints, NaN/inf/-0/subnormal floats, empty and non-ASCII strings, _id, unknown columns, NULL, cross-type literals); every strategy of the real engine on the same table",
    trusted_base=COMMON_TB + [
        "the model has no B-tree entry budget (max_btree_entries): cases that exhaust it (kind `budget`: tiny budgets, statements failing half-way, transactions) are judged by the property oracle on the implementation's observations only",
        "modelled, not verified: bitmap word packing and SIMD lanes (harness uses tables wider than 64 rows), timeouts and result-size limits, the transaction manager around update/delete, Bytes/Json columns, sum/avg (float addition: implementation-only oracle), the streaming cursor (implementation-only oracle), DefaultHasher on strings (modelled injective; collisions only add candidates that the re-check removes)",
        "text path: QueryRouter::execute_parsed on `SELECT * FROM t WHERE <fully parenthesised condition>`; literals the text cannot express (negative numbers, NaN/inf, quotes) are skipped",
    ],
    assumptions=[],
)
MANIFEST = dict(
    text="Coq theorems over the relational model: on every state reachable by any sequence of inserts/updates/deletes/index creations/drops over any schema, select (scan, hash index, ordered index + re-check), select_columnar (vectorised kernels + fallback; = the text path), limit/offset, cursor, count, min, max return exactly filter(evaluate) of the live rows; the exact-content invariant of every hash/ordered index is preserved by all DML/DDL; candidate-then-recheck is exact for any duplicate-free covering candidate list; the hash key respects == (refuted for raw float bits); update/delete touch exactly the satisfying rows. Shape facts of the Rust source (hash_key normalisation, index dispatch, re-check, limit after re-check, null/alive masks, exact float equality, NULL indexing of omitted columns) are regenerated on every run. The model is compared with the real engine on seeded DML/DDL traces under every strategy incl. QueryRouter::execute_parsed, and the property oracle is evaluated on the implementation's own select(True)/Condition::evaluate.",
    note="Trusted: Coq kernel, gen_C04.py (regex shape recognisers), harness + driver. Modelled not verified: bitmap word packing/SIMD lanes, timeouts/limits, the transaction manager around update/delete, Bytes/Json columns, sum/avg and the streaming cursor (implementation-only oracle), DefaultHasher (modelled injective). Six defects found and fixed in /repo (4bad7dae, 4c0f8e9e, da1feec4, b7c1847b, d82b4f5c, 5aa58ff9).",
)
