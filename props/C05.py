# C05 -- graph stays structurally consistent under any operations and threads
# (graph_engine/src/lib.rs over tensor_store/src/metadata_slab.rs)
CFG = dict(
    dirs=["Common", "C05"], gen=True,
    run_targets=["C05/Run.vo"], proof_targets=["C05/Props.vo"], props="C05/Props.v",
    gen_obligations=[
        "Inst.gen_remove_spec / gen_remove_any_order: the element search regenerated from remove_edge_from_list removes the id from a list in ANY order (not only ascending lists)",
        "Inst.gen_add_spec: add_edge_to_list appends the id unless it is present",
        "Inst.gen_ids_atomic_spec: create_edge, batch_create_edges, create_node_with_labels and batch_create_nodes reserve ids with one atomic fetch_add (premise `distinct fresh ids` of the concurrent theorem)",
    ],
    crate="nvh_c05",
    header=H + "From NV.C05 Require Import Model Run.\nOpen Scope N_scope.",
    kinds={"seq": ("seq_case", "check_seq"), "conc": ("conc_case", "check_conc"), "mixed": ("mixed_case", "check_mixed"), "trav": ("trav_case", "check_trav")},
    known_classes={0: "concurrent-delete-node"},
    shard=10,
    rule="seeded sequences of create_node/create_edge (directed, undirected, self-loops, parallel)/batch_create_edges/delete_edge/delete_node/update_node/update_edge on 1-8 nodes incl. missing ids, observed through the public reads after every operation; 2-8 threads behind a barrier on a shared engine (hub creations, creations + deletions/updates of overlapping setup edges, mixes with node deletions), observed at quiescence; batch_create_edges racing create_edge for edge ids (deterministic through the hook graph.batch_edge_ids, plus 2/4/8-thread stress; every id handed out must be unique); sequences on engines WITH Unique/Exists/PropertyType edge constraints and Unique/Exists node constraints in which many create_node/create_edge/batch_create_edges/update calls are refused (a refused call is the model's no-op `Rejected`; every call observed, including count_edges/count_nodes/edge_count/node_count and get_edge for every id against all_edges); traverse(start, direction, max_depth 0..4) from every node of graphs with several routes of different length to the same node (mirrored diamonds, chains with shortcuts, chords) against exactly the nodes at distance <= max_depth implied by all_edges; reopen sequences (GraphEngine::with_store on the same store after >= 10 / >= 100 edges and >= 10 nodes, then further creations); typed degrees (out/in/degree_by_type against the edge set and summing to the untyped degrees) in every observation; delete_node above the rayon threshold; kind `mixed`: a concurrent creation phase (deterministic, through the hook: the thread holding the smaller edge id is held at its first list while the other appends the larger id to the shared node's lists first, so those lists end up in NON-ascending order; plus 2/4/8-thread hub stress) followed by sequential delete_edge/delete_node with the structural oracle and the model compared after every step",
    trusted_base=COMMON_TB + [
        "modelled, not verified: the store as four association lists (node keys, out lists, in lists, edge records); one store.get/put/delete = one atomic step (metadata_slab takes the shard lock per call); with the per-key adjacency lock (commit c34d16e7) add_edge_to_list/remove_edge_from_list are single atomic steps; HashSet iteration order in delete_node is fixed to list order (the final state does not depend on it); property indexes, labels, constraints, timestamps and the legacy e* list format are outside the model",
        "guarded hook (commit 323c24cd, cfg(neumann_verif)): tensor_store::verif_hook::point(\"graph.adjacency_rmw\") between the read and the write-back of add_edge_to_list/remove_edge_from_list; the harness holds thread 1 there while thread 2 runs (deterministic schedules of C05_lost_update_refuted)",
        "guarded hook (commit 4ad1d9d7): point graph.batch_edge_ids in batch_create_edges between reading the edge counter and reserving the id block",
        "the hardware memory model below parking_lot locks and the rayon scheduler are not modelled; the stress runs exercise them",
    ],
    assumptions=[
        "concurrent theorem: threads run edge creations (ids handed out by the atomic counter, endpoints present throughout) and deletions of edges that exist; interleavings involving delete_node are covered by the stress oracle only and fall in known class concurrent-delete-node when they fail",
        "a client deleting/updating an edge id that another thread's create_edge has not yet returned is not generated (ids are only known after create_edge returns)",
    ],
)
MANIFEST = dict(
    text="Sequential: Consistent (every edge listed by both endpoints in the right lists, every listed edge exists and touches the lister, endpoints exist, no duplicates) is a Coq invariant of every operation sequence of the store-level model, delete_node removes exactly the incident edges, and the adjacency lists are exactly what the edge set implies. Concurrent: for any number of threads running edge creations/deletions with atomic read-modify-write per adjacency key, every interleaving of the atomic store steps ends consistent with exactly the old-minus-deleted-plus-created edges (theorem over all interleavings); without that atomicity lost_update_refuted, and with a concurrent delete_node delete_node_race_refuted (known finding). The model is compared with the real GraphEngine after every operation of seeded sequences and at quiescence of 2-8 thread runs; the Consistent oracle is evaluated on the engine's public reads.",
    note="Trusted: Coq kernel, harness + driver. Modelled not verified: store as association lists, one store call = one atomic step, parking_lot/rayon/hardware memory model; property indexes and constraints outside the model. Fixed in /repo: per-key lock around adjacency read-modify-write (c34d16e7). Known finding: concurrent delete_node vs create_edge on the same node.",
)
