# C05 -- graph stays structurally consistent under any operations and threads (graph_engine/src/lib.rs)
CFG = dict(
    dirs=["Common", "C05"], gen=False,
    run_targets=["C05/Run.vo"], proof_targets=["C05/Props.vo"], props="C05/Props.v",
    gen_obligations=[],
    crate="nvh_c05",
    header=H + "From NV.C05 Require Import Model Run.\nOpen Scope N_scope.",
    kinds={"seq": ("seq_case", "check_seq"), "conc": ("conc_case", "check_conc")},
    known_classes={},
    shard=10,
    rule="seeded op sequences",
    trusted_base=COMMON_TB + [],
    assumptions=[],
)
MANIFEST = dict(text="", note="")
