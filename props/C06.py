# C06 -- similarity search (vector_engine/src/lib.rs, tensor_store/src/{hnsw,sparse_vector,distance}.rs)
CFG = dict(
    dirs=["Common", "C06"], gen=True,
    run_targets=["C06/Run.vo"], proof_targets=["C06/Props.vo"], props="C06/Props.v",
    gen_obligations=[
        "Inst.gen_all_invalidate: every mutator of stored vectors (store_embedding, delete_embedding, store_embedding_with_metadata, batch_delete_embeddings, clear, store_in_collection_with_metadata, delete_from_collection, delete_collection) calls invalidate_hnsw_cache for its collection",
        "Inst.gen_dim_guard: the cached branch of search_similar/search_in_collection is taken only for queries of the indexed dimension",
        "Inst.gen_keep_spec: SparseVector::try_from_dense keeps exactly the components with val != 0.0",
        "Inst.gen_constants: |v| > 1e-6 and sparse_threshold 0.5 in the representation choice",
    ],
    crate="nvh_c06",
    header=H + "From NV.C06 Require Import Types Model Run.\nOpen Scope N_scope.",
    kinds={"trace": ("trace_case", "check_trace"), "sparse": ("sparse_case", "check_sparse")},
    known_classes={},
    shard=60,
    rule="seeded store/overwrite/delete/batch/clear/build/search programs over the default and named collections of the real VectorEngine",
    trusted_base=COMMON_TB + [],
    assumptions=[],
)
MANIFEST = dict(text="", note="")
