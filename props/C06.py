# C06 -- similarity search (vector_engine/src/lib.rs, tensor_store/src/{hnsw,sparse_vector,distance}.rs)
CFG = dict(
    dirs=["Common", "C06"], gen=True,
    run_targets=["C06/Run.vo"], proof_targets=["C06/Props.vo"], props="C06/Props.v",
    gen_obligations=[
        "Inst.gen_all_invalidate: every mutator of stored vectors (store_embedding, delete_embedding, store_embedding_with_metadata, batch_delete_embeddings, clear, store_in_collection_with_metadata, delete_from_collection, delete_collection) calls invalidate_hnsw_cache for its collection, and batch_store_embeddings writes its elements only through store_embedding",
        "Inst.gen_dim_guard: the cached branch of search_similar/search_in_collection is taken only for queries of the indexed dimension",
        "Inst.gen_keep_spec: SparseVector::try_from_dense keeps exactly the components with val != 0.0",
        "Inst.gen_constants: |v| > 1e-6 and sparse_threshold 0.5 in the representation choice",
        "Inst.gen_zero_guards: the degenerate-vector test is `norm == 0.0` both in the index's cosine_distance_{dense,dense_with_registry,sparse} and in the exact scan's cosine_similarity",
        "Inst.gen_twins: search_sequential/search_parallel and search_sequential_with_metric/search_parallel_with_metric are the same iterator chain (iter vs par_iter) with nothing in front of it",
        "Inst.gen_fallback: post-filtered search (search_with_post_filter, search_filtered_in_collection) falls back to the exact filtered search when fewer than k matches survive and the candidate list was cut off",
    ],
    crate="nvh_c06",
    header=H + "From NV.C06 Require Import Types Model Run.\nOpen Scope N_scope.",
    kinds={"trace": ("trace_case", "check_trace"), "sparse": ("sparse_case", "check_sparse"), "hnsw": ("hnsw_case", "check_hnsw")},
    known_classes={0: "reserved-default-name"},
    shard=60,
    rule="seeded store/overwrite/delete/batch/clear/build/search programs over the default and named collections of the real VectorEngine",
    trusted_base=COMMON_TB + [
        "modelled, not verified: f32 arithmetic (scores are an arbitrary function in the theorems; in the correspondence runs they are the bits returned by the implementation's own metric functions: VectorEngine::compute_similarity, hnsw::simd::dot_product, the euclidean formula of compute_score re-evaluated with the same operations, HNSWDistanceMetric::to_similarity(EmbeddingStorage::distance_dense)); HashMap scan order as a universally quantified permutation; the HNSW index as an arbitrary function returning (node id, score) pairs -- that its node ids are distinct and its scores true is a premise of C06_cached_safe_partial, checked on the real index by the harness; graph construction, level sampling and recall are not modelled; the rayon twin of batch_store_embeddings (>= 100 inputs; it attempts every element instead of stopping at the first rejected one) -- the rayon twins of the exact scans ARE exercised (runs with parallel_threshold 1..4), search timeouts, max_dimension, persistence (save/load index), entity embeddings, IVF/PQ indexes and pagination are outside the model",
    ],
    assumptions=[
        "no NaN score: vectors and queries are finite (the sort comparator maps incomparable scores to Equal, which is not a total preorder); the theorems carry this as an explicit premise",
        "collection names other than the reserved \"_default\" (known finding reserved-default-name)",
        "filters: one metadata field compared for equality, default FilteredSearchConfig values (threshold 0.1, oversample 3), fewer than 100 keys per collection so the selectivity sample is the whole collection",
        "HNSW search internals are a premise (partial): distinct node ids with true scores",
    ],
)
MANIFEST = dict(
    text="Exact path: for every score function, query, k, stored set and HashMap scan order the result is the k best same-dimension stored vectors, best first, live and current with true scores (Coq theorem); filtered searches reduce to it over the matching vectors. Cached index: safety facts (<= k, ordered, no duplicate key, indexed keys with true scores) for every index answer with distinct nodes and true scores (partial: HNSW internals are a premise), and the cache invariant 'a cached index stands for the collection's current vectors' for all programs, proved from the per-run regenerated table 'every mutator invalidates' (also shown necessary, mutator by mutator). Sparse representation round trip = zero-normalisation, for all vectors. The model is compared with the real VectorEngine on seeded programs over default and named collections with scores taken from the implementation's own metric functions as bits.",
    note="Trusted: Coq kernel, rs2v.py/gen_C06.py for the invalidation table, guards and constants, harness + driver. Partial: HNSW search internals (premise), recall not claimed. Known finding: a named collection called \"_default\" shares the default collection's cache slot.",
)
