# C07 -- snapshots reproduce the store exactly and replace files atomically (tensor_store)
CFG = dict(
    dirs=["Common", "C07"], gen=True,
    run_targets=["C07/Run.vo"], proof_targets=["C07/Props.vo"], props="C07/Props.v",
    gen_obligations=[
        "Inst.gen_layout_disjoint: the header fields written by to_raw_bytes occupy pairwise disjoint ranges of their own width inside HEADER_SIZE",
        "Inst.gen_header_roundtrip: from_raw_bytes (to_raw_bytes h) = h for the regenerated offsets",
        "Inst.gen_magic_first: a written file starts with the magic (detect_version sees v3)",
        "Inst.gen_save_order: create temp < write < rename(temp, path) in both save functions",
        "Inst.gen_load_unbounded: load_v3 inflates the compressed payload with the unbounded streaming decoder (no size/ratio cap), so the zstd round-trip premise covers everything save can write",
        "Inst.gen_steps_safe: the file-system steps of both save functions are temp-file steps only, leave the temp file complete and end with the one rename (no unlink / direct write of the target)",
    ],
    crate="nvh_c07",
    header=H + "From NV.C07 Require Import Types Model Run.\nOpen Scope N_scope.",
    kinds={"hdr": ("hdr_case", "check_hdr"), "rt": ("rt_case", "check_rt_full"),
           "q": ("q_case", "check_q"), "crash": ("crash_case", "check_crash"),
           "observe": ("observe_case", "check_observe")},
    known_classes={0: "quant-bytes-scalar", 1: "quant-id-list", 2: "sparse-threshold", 3: "tmp-extension"},  # 1-3 were fixed in /repo: a hit is a violation again
    shard=60,
    rule="seeded stores over all value kinds and key classes, saved and reloaded through files (zstd / raw), bytes and the quantising format on the real tensor_store and on the Gallina model; mid-save crash states captured through the guarded hook and truncated at every byte",
    trusted_base=COMMON_TB + [
        "modelled, not verified: bitcode and zstd (Section parameters ser/deser, zc/zd with round-trip premises; exercised on every generated store), the varint layer under IdList (C20), tensor-train decomposition (no theorem; checked against the documented tolerance by test only), the file system below 'a file is a byte string, rename is atomic, a crash keeps a prefix of the file being written and the rename is not persisted before the data' (no fsync precedes the rename in the code: an ordered-data file system is assumed), CacheRing eviction (capacity never reached), HashMap order (outputs sorted)",
        "guarded hook tensor_store::verif_hook point snapshot.before_rename (captures the real directory state between the temp write and the rename)",
    ],
    assumptions=["ordered-data file system: the rename is not made durable before the temp file's data (the code does not fsync before renaming)"],
)
MANIFEST = dict(
    text="Header codec round trip and field disjointness are re-proved every run over offsets regenerated from snapshot.rs; file/bytes round trips, crash atomicity of the temp+rename protocol (any prefix of the temp file, either side of the rename), the embedding-slab sparse rule and the quantising format's field mapping are Coq theorems over the model (libraries as Section premises); the model is compared with the real store on seeded stores over all value kinds, and mid-save states captured through a hook are truncated at every byte.",
    note="Trusted: Coq kernel, gen_C07.py, harness + driver, the hook. Modelled not verified: bitcode, zstd, varint, tensor-train SVD (tolerance by test only), the OS file system (ordered data, atomic rename).",
)
