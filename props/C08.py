# C08 -- rolling back to a checkpoint restores exactly the checkpointed database (tensor_checkpoint, tensor_store, query_router)
CFG = dict(
    dirs=["Common", "C08"], gen=True,
    run_targets=["C08/Run.vo"], proof_targets=["C08/Props.vo"], props="C08/Props.v",
    gen_obligations=[],
    crate="nvh_c08",
    header=H + "From NV.C08 Require Import Model Run.\nOpen Scope N_scope.",
    kinds={"script": ("script_case", "check_script")},
    known_classes={0: "restore-slabs", 1: "catalogue-rolled-back"},
    shard=8,
    rule="seeded router-level scripts (relational, graph and vector statements, CHECKPOINT, ROLLBACK TO, CHECKPOINTS) on a real QueryRouter with blob store and checkpoint manager; after every statement a fixed query battery, the key-addressed store, the relational slab and the checkpoint list are recorded and compared with the Gallina model",
    trusted_base=COMMON_TB + [
        "modelled, not verified: bitcode images as immutable values, the blob store as a set of keys of the same TensorStore (its chunking/GC is not modelled; GC is not started), engine-side caches (relational B-tree indexes, row counters, HNSW) are NOT in the model: their effect is visible only to the query-battery oracle",
        "guarded hook tensor_checkpoint::verif_clock (checkpoint creation second)",
    ],
    assumptions=["scripts use pairwise distinct checkpoint names and creation seconds (equal seconds are exercised by a separate implementation-only stream)"],
)
MANIFEST = dict(
    text="restore_from_bytes and the checkpoint catalogue (kept in the very store being rolled back) are modelled at key level as coded; Coq theorems: a successful rollback restores the key-addressed part (graph, embeddings) of the state at checkpoint time for every script; the relational part and the catalogue are REFUTED on the faithful model (witnesses replayed on the implementation, recorded as known findings) and proved under the repaired configuration; retention keeps the newest max under distinct creation times. The model is compared with a real QueryRouter on seeded scripts.",
    note="Trusted: Coq kernel, gen_C08.py, harness + driver, the clock hook. Not modelled: engine-side caches, blob chunking/GC.",
)
