# C09 -- relational transactions (relational_engine/src/lib.rs, transaction.rs)
CFG = dict(
    dirs=["Common", "C09"], gen=True,
    run_targets=["C09/Run.vo"], proof_targets=["C09/Props.vo"], props="C09/Props.v",
    gen_obligations=[
        "Inst.gen_c09_spec: tx_insert locks the inserted row, tx_update/tx_delete lock all matching rows before the change loop and record undo before changing, rollback applies the log in reverse and always releases, every transactional call starts with the is_active check, apply_undo_entry adds B-tree entries only for columns that have a B-tree index, tx_insert/tx_delete capture the undo's index entries for the system column `_id` as well, the expired-lock sweep prunes only the swept key from its owner's key list, the undo re-adds B-tree entries through a path that does not consult the entry budget",
    ],
    crate="nvh_c09", shard=60,
    header=H + "From NV.Common Require Import LockTable.\nFrom NV.C09 Require Import Model Run.\nOpen Scope N_scope.",
    kinds={"rel": ("c09_case", "check_rel"), "idcol": ("c09_case", "check_idcol"), "budget": ("c09_case", "check_budget")},
    known_classes={0: "rollback-after-lock-expiry", 1: "ddl-in-open-tx"},
    rule="seeded scripts of 0-4 interleaved transactions (tx_insert/tx_update/tx_delete, commit, rollback, reuse after end) with non-transactional insert/update/delete_rows, hash and B-tree index creation, row-lock expiry through the clock hook and the expired-lock sweep at any point (including transactions that hold one timed-out and one fresh lock when the sweep runs), on a real RelationalEngine and on the Gallina model; after every call: full scan, every Eq/Lt/Ge query on both columns (index paths), lock holders, lock and transaction counts; kind `idcol`: the same with hash / B-tree indexes and conditions on the system column `_id` (queries on `_id` added)",
    trusted_base=COMMON_TB + [
        "guarded clock hook relational_engine::transaction::verif_clock (commit de86fb99) replaces wall-clock reads by an explicit `now`",
        "modelled, not verified: one table with two non-null Int columns; the slab as an append-only list with alive bits; hash / B-tree index entries as sets of (column, value, row id) (the id-list order is never observed: select sorts by id); DashMap/RwLock atomicity; transaction ids renumbered from a process-wide counter",
    ],
    assumptions=[
        "single-threaded interleavings of whole API calls (each call is one step); TransactionManager::cleanup_expired (drops expired transactions without undo) has no production caller and is outside the alphabet",
        "the model's rows have the two ordinary columns only: cases with an index or a condition on the system column `_id` (kind `idcol`) are judged by the property oracle (index answers = scan filter, rollback restores rows, lock exclusion) on the implementation's observations only",
        "the model has no B-tree entry budget (max_btree_entries): cases that exhaust it (kind `budget`) are judged by the property oracle on the implementation's observations only",
        "float / NULL / string columns and the query planner beyond Eq/Lt/Ge/And are C04's subject, not modelled here",
    ],
)
MANIFEST = dict(
    text="Coq theorems over a model of the transactional API of RelationalEngine, for all statement sequences: rollback puts every row back to the live content it had when the transaction began, row by row and for every interleaving that leaves that row alone (undo is a left inverse, by induction over the history); after any rollback-free history, and after a rollback outside the two recorded classes, every Eq/Lt/Ge/And query through a hash or B-tree index answers exactly like the scan (per-row completeness/exactness invariant of the index entries, undo chain argument); commit touches nothing; a statement never changes a row whose unexpired lock belongs to another transaction and is refused with LockConflict if it matches one; writers (including tx_insert) hold the locks of the rows they touched; locks are gone after commit/rollback; finished transactions answer TransactionNotFound forever. Two recorded classes are refuted by witness: rollback after a row lock expired and another writer changed the row; an index created while a transaction had uncommitted changes. The model is compared call by call with the real engine, with every index-path query checked against the scan after every call.",
    note="Trusted: Coq kernel, gen_C09.py, harness + driver, the clock hook. Modelled not verified: one two-column Int table, index id lists as sets, DashMap/RwLock atomicity.",
)
