# C09 -- relational transactions (relational_engine/src/lib.rs, transaction.rs)
CFG = dict(
    dirs=["Common", "C09"], gen=True,
    run_targets=["C09/Run.vo"], proof_targets=["C09/Props.vo"], props="C09/Props.v",
    gen_obligations=[
        "Inst.gen_c09_spec: tx_insert locks the inserted row, tx_update/tx_delete lock all matching rows before the change loop and record undo before changing, rollback applies the log in reverse and always releases, every transactional call starts with the is_active check",
    ],
    crate="nvh_c09", shard=60,
    header=H + "From NV.Common Require Import LockTable.\nFrom NV.C09 Require Import Model Run.\nOpen Scope N_scope.",
    kinds={"rel": ("c09_case", "check_rel")},
    known_classes={0: "rollback-after-lock-expiry", 1: "ddl-in-open-tx"},
    rule="seeded scripts of 0-4 interleaved transactions (tx_insert/tx_update/tx_delete, commit, rollback, reuse after end) with non-transactional insert/update/delete_rows, hash and B-tree index creation, and row-lock expiry through the clock hook, on a real RelationalEngine and on the Gallina model; after every call: full scan, every Eq/Lt/Ge query on both columns (index paths), lock holders, lock and transaction counts",
    trusted_base=COMMON_TB + [
        "guarded clock hook relational_engine::transaction::verif_clock (commit de86fb99) replaces wall-clock reads by an explicit `now`",
        "modelled, not verified: one table with two non-null Int columns; the slab as an append-only list with alive bits; hash / B-tree index entries as sets of (column, value, row id) (the id-list order is never observed: select sorts by id); DashMap/RwLock atomicity; transaction ids renumbered from a process-wide counter",
    ],
    assumptions=[
        "single-threaded interleavings of whole API calls (each call is one step); TransactionManager::cleanup_expired (drops expired transactions without undo) has no production caller and is outside the alphabet",
        "float / NULL / string columns and the query planner beyond Eq/Lt/Ge/And are C04's subject, not modelled here",
    ],
)
MANIFEST = dict(
    text="Rollback restores rows and both index kinds (undo is a left inverse, by induction on the log), commit keeps everything, a row changed by an open transaction cannot be changed by another until the lock is released or expires, locks vanish at the end of the transaction and finished transactions reject every call are Coq theorems over a model of the transactional API of RelationalEngine for all statement sequences; outside two recorded classes (rollback after a row lock expired and another transaction changed the row; an index created while a transaction had uncommitted changes). The model is compared call by call with the real engine, with index-path queries checked against the scan after every call.",
    note="Trusted: Coq kernel, gen_C09.py, harness + driver, the clock hook. Modelled not verified: one two-column Int table, index id lists as sets, DashMap/RwLock atomicity.",
)
