# C10 -- Raft node restart never forgets a vote, a term or an acknowledged entry (raft_wal.rs / raft.rs)
CFG = dict(
    dirs=["Common", "C10"], gen=True,
    run_targets=["C10/Run.vo"], proof_targets=["C10/Props.vo"], props="C10/Props.v",
    gen_obligations=["Inst.scan_follows_every_length: the tail-repair scan of open (complete_prefix_len) has no record-length bound below what the writer can produce (regenerated from the source)", "Inst.gen_cfg_fixed: RaftWal::open repairs a torn tail and every term/vote assignment in the handlers is preceded by persist_term_and_vote (read from the source on every run)"],
    crate="nvh_c10",
    header=H + "From NV.Common Require Import WalFormat.\nFrom NV.C10 Require Import Model Run.\nOpen Scope N_scope.",
    kinds={"gens": ("gens_case", "check_gens")},
    known_classes={},
    shard=4,
    rule="seeded sequences of start_election / RequestVote / RequestVoteResponse / AppendEntries (consistent, conflicting, inconsistent prev) / AppendEntriesResponse / become_leader / propose / in-memory log compaction (finalize_to + create_snapshot + truncate_log with snapshot_trailing_logs 0 / 1 / 2, then conflicting AppendEntries above the compaction base) on a real RaftNode::with_wal; the real WAL file truncated at EVERY byte offset of each generation's appends; node restarted (with_wal + RaftRecoveryState::from_wal) and probed with a RequestVote (restart log compared with the live log by entry index); up to three crash generations",
    trusted_base=COMMON_TB + [
        "modelled, not verified: bitcode payload (de)serialisation (premise deser (ser e) = Some e; the harness supplies the real payload bytes), crc32fast (concrete Gallina CRC-32 compared byte-for-byte with every real log file), the file system below 'a file is a byte string; a crash keeps a prefix of unsynced appends'; read-only accessors verif_log_image / verif_voted_for (hook 3b917115)",
    ],
    assumptions=["fixed membership (this node + two peers), no log compaction, no snapshot install and no WAL rotation in the modelled step alphabet (rotation is only reachable past the 1 GiB default size)", "WAL I/O errors are not injected (persist failures abort the step in the code)"],
)
MANIFEST = dict(
    text="On top of the shared WAL framing theorems (crash-prefix for every byte offset, tail repair, multi-generation), the Raft persistence model (records written by start_election / vote / append-entries / step-down / propose, RaftRecoveryState::from_entries, with_wal) with theorems that a restart from any byte prefix yields a term >= every acknowledged term, the vote cast in that term and every acknowledged log entry; the model is compared with a real RaftNode::with_wal restarted from every truncation offset of the real log over up to three crash generations, and the property oracle is evaluated on the implementation's own observations.",
    note="Trusted: Coq kernel, translator gen_C10.py, harness + driver. Modelled not verified: bitcode, crc32fast (compared byte-for-byte), file system assumptions. Outside the model: snapshot install, compaction, rotation (see assumptions).",
)
