# C11 -- concurrent store operations behave as if executed one at a time (tensor_store)
CFG = dict(
    dirs=["Common", "C11"], gen=True,
    run_targets=["C11/Run.vo"], proof_targets=["C11/Props.vo"], props="C11/Props.v",
    gen_obligations=[
        "Inst.gen_single_step_classes: put/get/exists on graph, table and metadata keys are one call into the metadata slab",
        "Inst.gen_cache_steps: put/get/exists/delete on cache keys are one call into the cache ring",
        "Inst.gen_delete_no_precheck: delete does not start with a separate exists() check",
        "Inst.gen_durable_atomic: put_durable / delete_durable apply inside the WAL guard's scope (log_apply_atomic)",
        "Inst.gen_emb_ops_locked: the embedding-class arms of put/get/delete/exists hold the key's lock stripe",
        "Inst.gen_scan_single_step: MetadataSlab::scan with a non-empty prefix copies keys and values under one acquisition of the shard lock",
        "Inst.gen_durable_ids_in_log_order: put_durable allocates entity ids under the WAL guard",
        "Inst.gen_index_entries_not_early: exists (embedding keys) and scan report an entity-index entry only when get would find the key",
        "Inst.gen_prefix_bound_on_chars: MetadataSlab::next_prefix increments the last character of the prefix",
        "Inst.gen_bloom_fed_first: TensorStore::put / put_durable add the key to the Bloom filter before the router write",
        "Inst.gen_replay_ids_like_live: WAL replay allocates entity ids for the same records as put_durable",
        "Inst.gen_slot_alloc_atomic: EmbeddingSlab::allocate_slot takes its slot with one atomic fetch_add",
        "Inst.gen_bloom_add_atomic: BloomFilter::add sets each bit with one atomic fetch_or",
        "Inst.gen_cache_get_key_checked: CacheRing::get compares the slot entry's key before returning its value",
    ],
    crate="nvh_c11", release=True,
    header=H + "From NV.C11 Require Import Model Run.\nOpen Scope N_scope.",
    kinds={"lin": ("lin_case", "check_lin"), "order": ("order_case", "check_order"), "pscan": ("pscan_case", "check_pscan")},
    known_classes={0: "emb-three-structures", 1: "delete-two-steps"},
    shard=40,
    rule="multi-thread histories (2-4 threads, contended keys of every key class, with and without the durable log) recorded on the real TensorStore with a global invocation/response counter and decided by a Wing-Gong search against the sequential specification (witnesses re-checked, failures re-searched, inside Coq); deterministic replay of the durable-order race through the guarded hook",
    trusted_base=COMMON_TB + [
        "modelled, not verified: parking_lot locks as atomic steps (one step per lock acquisition); weak-memory effects below lock granularity are outside the model; CacheRing eviction (capacity never reached); the WAL file format (C02)",
        "guarded hook tensor_store::verif_hook points put_durable.logged / delete_durable.logged",
        "the Wing-Gong search in the harness is a search tool: its positive answers are validated in Coq against the Gallina sequential specification, its negative answers are re-searched exhaustively in Coq (histories up to 12 operations)",
    ],
    assumptions=[],
)
MANIFEST = dict(
    text="Step model (one atomic step per lock acquisition; step lists and the WAL lock scope regenerated from slab_router.rs): Coq theorems that single-step operations are linearizable for any number of overlapping operations (the step order is the witness and respects real time), and that with the apply inside the WAL guard the log order is the memory order for every schedule (refuted for the earlier code by a 4-step schedule, replayed through the hook; fixed in /repo). Histories from the real store are decided by a Wing-Gong search and re-checked in Coq.",
    note="Trusted: Coq kernel, gen_C11.py, harness + driver, the hook. Not modelled: hardware memory model below lock granularity (parking_lot trusted).",
)
