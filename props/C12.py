# C12 -- 2PC key locks and deadlock detection (tensor_chain/src/distributed_tx.rs LockManager, deadlock.rs)
CFG = dict(
    dirs=["Common", "C12"], gen=True,
    run_targets=["C12/Run.vo"], proof_targets=["C12/Props.vo"], props="C12/Props.v",
    gen_obligations=[
        "Inst.gen_expired_spec: the regenerated KeyLock::is_expired is the model's `expired`",
        "Inst.gen_blocks_spec: the regenerated refusal test of try_lock/try_lock_with_wait_tracking is the model's `blocks`",
        "Inst.gen_atomic: every LockManager op takes both table guards once before any table access (ops are atomic steps)",
        "Inst.gen_finish_spec: commit/abort/cleanup_timeouts release by transaction id and drop the transaction from the wait-for graph",
        "Inst.gen_detect_spec: DeadlockDetector::detect calls no mutating method of the wait-for graph (it only observes)",
    ],
    crate="nvh_c12", shard=100,
    header=H + "From NV.Common Require Import LockTable.\nFrom NV.C12 Require Import Model Run.\nOpen Scope N_scope.",
    kinds={"lm": ("lm_case", "check_lm"), "coord": ("lm_case", "check_lm"), "graph": ("graph_case", "check_graph")},
    known_classes={},
    rule="seeded op sequences on the real LockManager + WaitForGraph (lock/relock/release by tx and by handle/expiry through the clock hook/serialize-restore), coordinator-level prepare/vote/commit/abort/timeout sequences projected on the same ops, every digraph on <= 3 (thorough: 4) transactions plus random wait-for graphs on <= 8 through DeadlockDetector, the detection round run 0 ms to 100 s (clock hook; edge_ttl_ms is 30 s) after the relations were recorded and the relations read again afterwards, 2-6 thread stress with a mutual-exclusion oracle, and forced two-thread interleavings (prepare of a waiter against abort/commit/timeout of the holder) through the schedule-point hook",
    trusted_base=COMMON_TB + [
        "guarded clock hook tensor_chain::distributed_tx::verif_clock (commit 317762a3) replaces wall-clock reads by an explicit `now`",
        "guarded schedule-point hook tensor_chain::distributed_tx::verif_sched (commit 04879d59; one point at the entry of WaitForGraph::add_wait) lets the harness hold one thread there while another runs",
        "modelled, not verified: HashMap/HashSet as association lists / duplicate-free lists (iteration order never observed: the DFS theorems hold for every neighbour/start order, dumps are sorted); u64 as unbounded N (lock-handle counter overflow not modelled); parking_lot RwLock (each LockManager op is one atomic step because it holds both table guards for its whole body: checked on the source by the translator); bitcode round trip of SerializableLockState is the identity",
    ],
    assumptions=[
        "concurrency: the lock-table clauses lift to all interleavings because LockManager ops are atomic steps (translator-checked); WaitForGraph::add_wait/remove_transaction take their four maps one at a time, so the wait-graph clauses are proved for sequential histories and exercised by the thread stress only",
        "the deadlock report theorem is for wait-for graphs with at most max_cycle_length transactions (default 100; the property quantifies over <= 8): beyond that the detector deliberately drops long cycles",
    ],
)
MANIFEST = dict(
    text="Lock-table safety (refusal of a request that meets a held key, all-or-nothing grant, foreign locks untouched), nothing-left-behind after release / commit / abort / timeout (forward-index and reverse-edge invariants over every reachable state), expiry sweep, DFS soundness, completeness and termination within |transactions|+1 levels for every iteration order (end to end: on any graph with at most max_cycle_length transactions a deadlock is reported exactly when the recorded wait-for relation has a cycle, each reported cycle is a cycle, the victim is in it) are Coq theorems over the LockManager/WaitForGraph/DeadlockDetector model for all op sequences; decision expressions and the structural facts the proofs use (atomic ops, finish releases by tx and leaves the graph) are regenerated from distributed_tx.rs on every run; the model is compared with the real code on seeded lock-manager and coordinator sequences under a controlled clock, on all small and random wait-for graphs, plus a thread stress with a mutual-exclusion oracle.",
    note="Trusted: Coq kernel, rs2v.py + gen_C12.py, harness + driver, the clock hook. Modelled not verified: hash containers as lists, u64 as N, RwLock atomicity; wait-graph clauses are sequential (stress-tested only under threads).",
)
