# C13 -- 2PC coordinator restart preserves every logged decision (tx_wal.rs / distributed_tx.rs)
CFG = dict(
    dirs=["Common", "C13"], gen=True,
    run_targets=["C13/Run.vo"], proof_targets=["C13/Props.vo"], props="C13/Props.v",
    gen_obligations=["Inst.scan_follows_every_length: the tail-repair scan of open (complete_prefix_len) has no record-length bound below what the writer can produce (regenerated from the source)", "Inst.gen_cfg_fixed: TxWal::open repairs a torn tail, restore_tx keeps the first logged vote of a shard, TxComplete is logged before any lock release (read from the source on every run)"],
    crate="nvh_c13",
    header=H + "From NV.Common Require Import WalFormat.\nFrom NV.C13 Require Import Model Run.\nOpen Scope N_scope.",
    kinds={"gens": ("gens_case", "check_gens")},
    known_classes={},
    shard=3,
    rule="seeded mixes of begin / lock + vote (in any order, duplicates, late votes, votes for unknown ids) / commit / abort / complete_* / cleanup_timeouts / further recover_from_wal() calls on the live coordinator over 1-4 transactions on a real DistributedTxCoordinator with a TxWal (clock through the guarded hook 317762a3); the real log truncated at EVERY byte offset of each generation's appends; coordinator restarted (with_wal + recover_from_wal), every transaction driven to its natural completion, timeout sweeper run 6 s later; up to three crash generations",
    trusted_base=COMMON_TB + [
        "modelled, not verified: bitcode payload (de)serialisation (premise deser (ser e) = Some e; the harness supplies the real payload bytes and decodes the real log with the real deserializer for the oracle), crc32fast (concrete Gallina CRC-32 compared byte-for-byte with every real log file), the file system below 'a file is a byte string; a crash keeps a prefix of unsynced appends'; the order in which commit() logs the lock releases (HashMap iteration) is an input of the model step; guarded clock hook verif_clock (commit 317762a3)",
    ],
    assumptions=["restart = a fresh coordinator with the WAL attached (DistributedTxCoordinator::new(..).with_wal(TxWal::open(..)) + recover_from_wal), as in the crate's own recovery tests; its lock manager starts empty", "zero deltas (the cross-shard conflict check always passes); AbortIntent records (written only by the async broadcast loop) do not occur", "WAL I/O errors are not injected"],
)
MANIFEST = dict(
    text="On top of the shared WAL framing theorems (crash-prefix for every byte offset, tail repair, multi-generation), the coordinator model (records written by begin / record_vote / commit / abort, TxRecoveryState::from_entries, recover_from_wal with restore_tx, post-recovery commit / abort / complete_* / cleanup_timeouts) with theorems that a logged outcome is never reversed after a restart from any byte prefix (for every continuation of calls and timeout sweeps), that the live coordinator's pending table is what its log says (an invariant of every call and every restart) so that Prepared/Committing transactions come back with exactly the votes the live coordinator held and can be completed, and that transactions still collecting votes are forgotten and no lock is held (plus the refutation witness of the pre-fix vote rule); the model is compared with a real DistributedTxCoordinator+TxWal restarted from every truncation offset over up to three crash generations and the property oracle is evaluated on the implementation's own observations and its own decoded log.",
    note="Trusted: Coq kernel, translator gen_C13.py, harness + driver, clock hook. Modelled not verified: bitcode, crc32fast (compared byte-for-byte), file system assumptions.",
)
