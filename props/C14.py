# C14 -- vault: no access without a live grant, no plaintext at rest
# (tensor_vault/src/{vault,access,ttl,delegation,encryption,obfuscation,attenuation}.rs)
CFG = dict(
    dirs=["Common", "C14"], gen=True,
    run_targets=["C14/Run.vo"], proof_targets=["C14/Props.vo"], props="C14/Props.v",
    gen_obligations=[
        "Inst.gen_attenuate_eq: the attenuation function regenerated from AttenuationPolicy::attenuate equals the model's on every input (hence antitone in the hop count)",
        "Inst.gen_allowed_ok: every allow-listed edge type is a VAULT_ACCESS* (granting, never traversed) or MEMBER* (traversed, never granting) type; MAX_BFS_DEPTH and the default policy are the modelled ones",
        "Inst.gen_sweep_ok: check_access_with_permission, has_access and get_permission sweep expired grants before consulting the graph",
    ],
    crate="nvh_c14",
    header=H + "From NV.C14 Require Import Model Run.\nOpen Scope N_scope.",
    kinds={"hist": ("hist_case", "check_hist"), "scan": ("scan_case", "check_scan"), "att": ("att_case", "check_att")},
    known_classes={0: "ttl-lazy-expiry", 1: "secret-name-at-rest"},
    shard=25,
    rule="long mixed histories (set/get/list/rotate/delete/grant/grant_with_ttl/revoke/delegate/get_permission/membership add+remove) by root and 3-5 identities over 1-3 groups and 2-4 secrets against the real Vault under several attenuation policies; every answer compared with the model and judged by a grant-tracking oracle; the store image, audit log and error strings scanned for every secret value and name (raw, hex, base64)",
    trusted_base=COMMON_TB + [
        "modelled, not verified: AES-256-GCM, HMAC/BLAKE2 key obfuscation, Argon2id, padding (opaque term constructors Enc/Obf/Pad: cryptographic strength is NOT a theorem -- partial); HMAC edge signatures (every edge the vault writes is valid; tampering with graph edges is outside the operation alphabet); GraphEngine as two edge lists; rate limiting, quotas, versions, sealing, anomaly monitor not modelled",
        "time: one logical unit per call; TTLs are 0 (expired at the next call), one hour, or 20 ms followed by a 120 ms sleep (corpus)",
    ],
    assumptions=[
        "membership edges are added/removed through the GraphEngine API between identity and group nodes only (never to a secret node); access edges only through the vault API",
        "each delegated child has at most one delegating parent in the histories (DelegationManager resolves parents through DashMap iteration otherwise)",
        "cryptographic strength of AES-GCM/HMAC is assumed, the at-rest theorem is symbolic (no Plain secret value or name outside Enc/Obf)",
    ],
)
MANIFEST = dict(
    text="BFS permission level = declarative maximum over membership paths below the horizon ending in a valid grant; a successful guarded call by a non-root requester implies a sufficient live grant; revoke/expiry/delete remove it in the next state; membership alone gives nothing; granting needs Admin; no secret value is ever written outside Enc (symbolic taint invariant) -- Coq theorems over an executable model of vault.rs/access.rs/ttl.rs; attenuation function, allow-list, depth limits and sweep placement regenerated from the source each run; every allow/deny of long mixed histories on the real Vault compared with the model and with an independent grant-tracking oracle; store image, audit log and errors scanned for values and names.",
    note="Partial: cryptographic strength is not a theorem (AES-GCM/HMAC are opaque constructors). Known finding: secret names are stored in clear in the access-control node (_secret_key), the TTL tracker record and delegation records.",
    level="proof",
)
