# C15 -- parser: total, deterministic, precedence-correct, never exhausts the stack
# (neumann_parser/src/{lexer,expr,parser,ast}.rs)
CFG = dict(
    dirs=["Common", "C15", "C04"], gen=True,
    run_targets=["C15/Run.vo"], proof_targets=["C15/Props.vo"], props="C15/Props.v",
    gen_obligations=[
        "Inst.gen_wf_expr / gen_wf_parser: WellFormedTable for the binding-power table of expr.rs and of parser.rs (every operator left associative, prefix power above every right power)",
        "Inst.gen_tables_agree: the two copies (table, prefix power, MAX_DEPTH, guard) are identical",
        "Inst.gen_guards: both Pratt loops carry the depth guard and every recursion cycle of parser.rs passes through a guarded entry point",
        "Inst.gen_shape: current_binary_op is the expected token map in both files; unary operands, LIKE patterns and BETWEEN bounds are parsed at the prefix power",
        "Inst.gen_doc_agrees_expr / gen_doc_agrees_parser: BinaryOp::precedence + is_left_assoc induce exactly the grouping of the tables",
        "Inst.gen_cache_transparent: the query-cache key is the statement text as written (injective on statements) and every write statement invalidates the cache on success and on error, unconditionally",
        "Inst.gen_docs_consistent: expr.rs header comment and docs/book binding-power table state the same levels, powers and associativity",
    ],
    crate="nvh_c15",
    header=H + "From NV.C15 Require Import Types Model Run.\nOpen Scope N_scope.",
    kinds={"tree": ("tree_case", "check_tree"), "stream": ("stream_case", "check_stream")},
    known_classes={},
    shard=200,
    rule="expression trees (all operator pairs in both operand positions, every parent position x child kind, nesting around the limit, random to depth 8) printed with the parentheses the DOCUMENTED precedence requires and parsed by both real parsers; mutated token strings; statement-level fuzz in a child process",
    trusted_base=COMMON_TB + [
        "modelled, not verified: only the expression fragment (literals/identifiers, 19 infix, 3 prefix operators, IS [NOT] NULL, [NOT] IN (list), [NOT] LIKE, [NOT] BETWEEN, parentheses, tuples) has a Gallina model; function calls, arrays, CASE, CAST, EXISTS, qualified names, sub-queries, the ~10k-line statement grammar and the lexer are covered by the child-process fuzz oracle only (totality, determinism, error span inside the input, no stack exhaustion on a 2 MiB stack)",
        "stack model: one unit per parse_expr_bp activation (the depth counter); that every activation uses a bounded number of Rust frames is read off the source (gen_recursion_guarded_parser) and confirmed by the deep-nesting corpus, not proved",
        "token spelling/lexing of the fragment (harness prints tokens with its own spelling table and maps spans back to token indices)",
    ],
    assumptions=["'text = direct engine call' is a differential test (twin routers: INSERT/UPDATE/DELETE/SELECT text through execute_parsed vs the direct RelationalEngine calls, WHERE clauses printed with the minimal parentheses of the documented precedence; plus statement sequences with CREATE/DROP TABLE, index DDL, no-op UPDATE/DELETE and repeated SELECT texts on routers with the query cache ON and OFF against direct calls; plus cache-on vs cache-off transparency for NODE/EDGE/NEIGHBORS/EMBED/SIMILAR) and, for the vectorised/indexed relational strategies, C04's text kind; graph/vector/vault statement families are not compared"],
)
MANIFEST = dict(
    text="Known finding legacy-execute-parentheses (QueryRouter::execute, the legacy string-splitting entry point, has no parentheses; refutation witness proved and replayed; its AND/OR mis-grouping was fixed in 03a8e25d). Pratt round trip proved in Coq for ANY well-formed binding-power table (infix left-assoc, prefix, postfix IS NULL/IN/LIKE/BETWEEN, parentheses, tuples, depth guard): parse(print_min(e)) = e for every tree within the nesting limit, with print_min using the DOCUMENTED precedence; stack bound MAX_DEPTH+1 activations for the guarded parser on every input, and unboundedness of the unguarded loop (the defect fixed in 39e07efb). Both binding-power tables, prefix power, MAX_DEPTH, guards, token maps, the call-graph guard fact and three documented precedence tables are regenerated from the source on every run and WellFormedTable / tables_agree / doc agreement re-proved by computation. The model is compared with both real parsers (expr.rs ExprParser, parser.rs Parser) on printed trees and mutated token strings incl. error kind and position. Statement grammar and lexer: fuzz oracle in a child process (partial).",
    note="Trusted: Coq kernel, gen_C15.py (regex extraction of tables), harness + driver. Modelled not verified: everything outside the expression fragment (statement grammar, lexer, calls/arrays/CASE/CAST/sub-queries) is fuzz-only; stack usage per activation is not proved.",
)
