# C16 -- the chain is tamper-evident and commits are atomic and deterministic
# (tensor_chain/src/{chain,block,lib,transaction,state_machine,state_root,signing}.rs)
CFG = dict(
    dirs=["Common", "C16"], gen=True,
    run_targets=["C16/Run.vo"], proof_targets=["C16/Props.vo"], props="C16/Props.v",
    gen_obligations=[
        "Inst.gen_layouts_std: the field order regenerated from BlockHeader::hash and BlockHeader::signing_bytes is the layout the pre-image lemmas are proved for",
        "Inst.gen_flags_ok: the regenerated flags say Chain::verify_chain checks the genesis tx_root, the signature demand starts above height 1 and TensorChain::commit holds its lock from pre-image to append",
    ],
    crate="nvh_c16",
    header=H + "From NV.C16 Require Import Model Run.\nOpen Scope N_scope.",
    kinds={
        "seq": ("N * seq_case", "check_seq1"),
        "tamper": ("N * tamper_case", "check_tamper1"),
        "conc": ("N * conc_case", "check_conc1"),
        "replay": ("N * replay_case", "check_replay1"),
        "merge": ("N * merge_case", "check_merge1"),
        "dup": ("N * dup_case", "check_dup1"),
        "commitroot": ("N * croot_case", "check_croot1"),
        "layout": ("layout_case", "check_layout"),
    },
    known_classes={0: "block-signatures-field", 1: "genesis-unlinked", 2: "merkle-duplicate-tail",
                   3: "rollback-stale-checkpoint", 4: "first-block-unsigned", 5: "state-root-covers-chain-records", 6: "append-timestamp-regression"},
    shard=60,
    rule="seeded begin/put/delete/commit/rollback/append_block histories over 1-4 workspaces on the real TensorChain (validator keys registered); every single-field mutation, removal, swap, copy and forgery of every stored block of each chain; 2-4 concurrent commits through the commit hook; two replicas replaying the same blocks",
    trusted_base=COMMON_TB + [
        "modelled, not verified: SHA-256, Ed25519, bitcode serialisation of transactions and embeddings (Section variables; theorems are closed over explicit premises, collision-or form); TensorStore as an association list (data keys, stored blocks, meta record); snapshot_bytes/restore_from_bytes as copy/replace of that image (C08 covers its fidelity); graph nodes/edges of the chain links and the codebook are not modelled; u64 as unbounded N with the 2^64 bound as a premise where the layout needs it",
        "the correspondence runs use a symbolic (ideal) instantiation of hash/sign; concrete pre-image bytes are compared separately (kind layout)",
    ],
    assumptions=[
        "workspaces carry no embeddings in the modelled histories (conflict detection and auto-merge inactive there); commits of workspaces WITH embeddings (conflicting / orthogonal directions, auto-merge on and off, sequential and concurrent) are judged by the implementation-only oracle of kind merge, without a model comparison",
        "removal of the TIP block is only detectable while the in-memory height is kept (a reloaded chain walks back to the last stored block): the removal theorem is about heights <= the verifier's height",
    ],
)
MANIFEST = dict(
    text="Tamper evidence (forged/mutated/removed/reordered stored block => verify fails, or an explicit SHA-256 collision, or a signature never produced by the validators; no injectivity assumed), append-built chains verify, sequential commit is all-or-nothing, replay is deterministic and serialised concurrent commits keep the chain valid are Coq theorems over an executable model of Chain/Block/TensorChain; the header pre-image layout and the presence of the validation steps are regenerated from the Rust source every run; the model is compared with the real TensorChain on seeded histories, exhaustive per-chain block mutations, hook-scheduled concurrent commits and two-replica replays.",
    note="Trusted: Coq kernel, translator for layout/flags, harness + driver. Modelled not verified: SHA-256/Ed25519/bitcode (Section variables with explicit premises), TensorStore image semantics. Known findings: Block.signatures and genesis signature are unauthenticated, Merkle duplicate-tail malleability, rollback restores a stale store image, unsigned first block accepted by append.",
)
