# C17 -- membership convergence (tensor_chain/src/gossip.rs)
CFG = dict(
    dirs=["Common", "C17"], gen=True,
    run_targets=["C17/Run.vo"], proof_targets=["C17/Props.vo"], props="C17/Props.v",
    gen_obligations=["Inst.gen_sup_spec: the regenerated supersedes is the strict lexicographic order on (incarnation, timestamp)"],
    crate="nvh_c17",
    header=H + "From NV.C17 Require Import Types Model Run.\nOpen Scope N_scope.",
    kinds={"trace": ("trace_case", "check_trace"), "conv": ("conv_case", "check_conv"), "global": ("global_case", "check_global")},
    known_classes={0: "tie-conflict"},
    rule="seeded op sequences / update sets over 2-4 members with small incarnation and timestamp ranges (ties frequent), run on the real LWWMembershipState and on the Gallina model",
    trusted_base=COMMON_TB + [
        "modelled, not verified: HashMap as an association list (iteration order never observed: dumps are taken per member id); u64 arithmetic as unbounded N (clock overflow at 2^64 not modelled); updated_at (wall clock) ignored; GossipMembershipManager's transport/callback layer around LWWMembershipState is outside the model",
    ],
    assumptions=["update_local with a caller-chosen incarnation is outside the property's listed events (it can lower an incarnation by construction)"],
)
MANIFEST = dict(
    text="Convergence (same set of updates => same view, any order/grouping/repetition, outside the known tie-conflict class), never-backwards (clock and incarnations) and the failed-incarnation bound are Coq theorems for all inputs over the LWW membership model; the model's supersedes is regenerated from gossip.rs on every run and its order property re-proved; the model is compared with the real LWWMembershipState on seeded traces, delivery pairs (all orders of small sets) and multi-replica runs.",
    note="Trusted: Coq kernel, rs2v.py for one function, harness + driver. Modelled not verified: HashMap as association list, u64 as unbounded N, the GossipMembershipManager layer (transport, callbacks, signed envelopes) around LWWMembershipState.",
)
