# C17 -- membership convergence (tensor_chain/src/gossip.rs)
CFG = dict(
    dirs=["Common", "C17"], gen=True,
    run_targets=["C17/Run.vo"], proof_targets=["C17/Props.vo"], props="C17/Props.v",
    gen_obligations=["Inst.gen_sup_spec: the regenerated supersedes is the strict lexicographic order on (incarnation, timestamp)"],
    crate="nvh_c17",
    header=H + "From NV.C17 Require Import Types Model Mgr Run.\nOpen Scope N_scope.",
    kinds={"trace": ("trace_case", "check_trace"), "conv": ("conv_case", "check_conv"), "global": ("global_case", "check_global"), "mgr": ("mgr_case", "check_mgr")},
    known_classes={0: "tie-conflict"},
    rule="seeded op sequences / update sets over 2-4 members with small incarnation and timestamp ranges (ties frequent), run on the real LWWMembershipState and on the Gallina model; seeded schedules (rounds, local suspicions, deliveries with duplication/reordering/loss) on clusters of 2-4 real GossipMembershipManagers",
    trusted_base=COMMON_TB + [
        "modelled, not verified: HashMap as an association list (iteration order never observed: dumps are taken per member id); u64 arithmetic as unbounded N (clock overflow at 2^64 not modelled); updated_at (wall clock) ignored; GossipMembershipManager (Mgr.v): handle_gossip for Sync/Suspect/Alive/PingReq/PingAck, gossip_round with suspicion expiry, suspect_node, add_peer are modelled and compared with real managers joined by a captured transport; outside the model: signed envelopes, geometric target selection (fanout is set above the peer count so every peer is a target), callbacks, flap/heal/bidirectional-probe bookkeeping (none touches the membership view), wall-clock suspicion timeouts (configured to 'all expired' or 'none expired'); the HashMap order in which expire_suspicions fails several members is read off the implementation's timestamps and handed to the model",
    ],
    assumptions=["update_local with a caller-chosen incarnation is outside the property's listed events (it can lower an incarnation by construction)"],
)
MANIFEST = dict(
    text="Convergence (same set of updates => same view, any order/grouping/repetition, outside the known tie-conflict class), never-backwards (clock and incarnations) and the failed-incarnation bound are Coq theorems for all inputs over the LWW membership model; the model's supersedes is regenerated from gossip.rs on every run and its order property re-proved; the model is compared with the real LWWMembershipState on seeded traces, delivery pairs (all orders of small sets) and multi-replica runs. The never-backwards and failed-incarnation clauses are also proved one layer up, for clusters of GossipMembershipManagers exchanging Sync/Suspect/Alive/Ping messages under any schedule, and that model is compared with real managers joined by a captured transport.",
    note="Trusted: Coq kernel, rs2v.py for one function, harness + driver. Modelled not verified: HashMap as association list, u64 as unbounded N, of the GossipMembershipManager layer: signed envelopes, geometric target selection, callbacks, wall-clock timeouts.",
)
