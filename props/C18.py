# C18 -- path queries return real, optimal paths
# (graph_engine/src/lib.rs find_path/find_weighted_path/find_all_paths/find_variable_paths/traverse,
#  graph_engine/src/algorithms/{astar,scc,mst,kcore,triangles,biconnected}.rs)
CFG = dict(
    dirs=["Common", "C18"], gen=True,
    run_targets=["C18/Run.vo"], proof_targets=["C18/Props.vo"], props="C18/Props.v",
    gen_obligations=[
        "Inst.gen_fp_spec: the neighbour rule regenerated from find_path follows a directed edge only from `from` to `to` and an undirected edge either way",
        "Inst.gen_wp_spec: the same for the outgoing-list loop of find_weighted_path",
        "Inst.gen_ap_spec: the same for find_all_paths",
    ],
    crate="nvh_c18",
    header=H + "From NV.C18 Require Import Model Run.\nOpen Scope N_scope.",
    kinds={"bfs": ("bfs_case", "check_bfs"), "wpath": ("wpath_case", "check_wpath"), "allp": ("allp_case", "check_allp"),
           "varp": ("varp_case", "check_varp"), "trav": ("trav_case", "check_trav"), "astar": ("astar_case", "check_astar"),
           "algo": ("algo_case", "check_algo"), "allw": ("allw_case", "check_allw"), "pat": ("varp_case", "check_pat")},
    known_classes={},
    shard=6,
    rule="seeded random multigraphs of 1-24 nodes (all directed / all undirected / mixed; self-loops, parallel edges, forced disconnected parts, edge and node deletions; weights missing(default 1)/small/zero-heavy/all-equal/large(<2^40)/mixed, integer-valued so f64 sums are exact) built on the real GraphEngine; the current graph is what all_nodes/all_edges return; every start/end pair (plus a missing id) for find_path without filter, sampled pairs with random node/edge filters, all pairs for find_weighted_path, find_all_paths, find_variable_paths (hop bounds 0..4, direction, edge types, filters, cycles, max_paths), traverse from every node, astar_path (zero heuristic) in the three directions, and the algorithm library once per graph (k-core with .undirected() and with the default config); variable-length PATTERN matching (match_pattern (n_from)-[p:*min..max, type, direction]->(n_to), every node carries a label n<id>) on the random multigraphs and on the weighted family against the same exact enumeration as find_variable_paths (order-insensitive, no path twice); astar_path with the zero heuristic and with an admissible consistent heuristic (half the true remaining distance, Floyd-Warshall in the harness) on the weighted family in all three directions; find_all_weighted_paths on every pair of ~70 small weighted graphs (3-7 nodes; heavy direct edges next to light detours, zero/equal weights, parallel edges) against reference minimum + brute-force enumeration of all simple minimum-weight paths; in addition 260 (thorough 6000) small structured graphs of 5-16 nodes for the algorithm library only (cliques with subdivided edges and pendant leaves/trees, cliques joined by paths, stars on cliques, two cores sharing a node, dense random) plus a fixed corpus (K4/K5 with subdivided edges and leaves, cliques joined by a path, K4 plus pendant), each checked for core numbers, degeneracy (both entry points), the cores grouping, kcore_subgraph(k) and shell(k) for every k against the k-core definition, triangles, SCC, components, MST, articulation points, bridges and blocks",
    trusted_base=COMMON_TB + [
        "modelled, not verified: the graph as a node list and an edge list in id order with adjacency lists derived the way create_edge/delete_edge maintain them (C05 proves that correspondence for the store-level model); get_edge lookups always succeed (consistent graph); weights as naturals (the harness uses integer-valued non-negative weights; negative-weight errors and f64 rounding are outside the model); HashMap/HashSet as association lists (only order-independent outputs are compared where the code iterates a hash container: traverse result sets, algorithm outputs canonicalised by sorting)",
        "algorithm library (SCC, connected components, MST, k-core, triangles, articulation points/bridges/biconnected components) and astar_path: executable textbook specifications in Run.v evaluated against the implementation's outputs (differential, no theorem about the implementations' algorithms); bridges/blocks are taken over the underlying simple graph (the API reports node pairs), triangles/k-core in the undirected reading",
    ],
    assumptions=[
        "find_weighted_path/find_all_paths/astar with negative weights, NaN weights and custom A* heuristics are not generated",
        "traverse: the node filter decides which reached nodes are reported (it does not prune the search), as the code does; the property text does not fix this",
    ],
)
MANIFEST = dict(
    text="find_path: for the BFS as the code does it (queue, visited set, parent map, early exit; neighbour rule regenerated from the source and re-proved per run) the returned walk is valid under the direction- and filter-respecting relation, has minimum hop count, PathNotFound <=> unreachable, fuel never runs out (Coq theorem, all graphs/filters/endpoints). Weighted, all-shortest, variable-length and traverse queries: executable models compared with the real engine plus independent oracles (valid walk respecting direction/filters, optimal by reference Bellman-Ford / level search, exact enumeration) on random multigraphs; theorems for the enumeration and Dijkstra as listed in coverage.theorems. Algorithm library and A*: textbook executable specifications run differentially (partial).",
    note="Trusted: Coq kernel, rs2v.py for three decision expressions, harness + driver. Modelled not verified: adjacency lists derived from the edge list, naturals for weights, hash containers as lists. Fixed in /repo: pattern neighbours dropped parallel incoming edges (ae942fcc), find_all_weighted_paths hang/duplicates (23f86df7), find_path direction (e3bd2c2e), count_triangles (cea847ea), biconnected_components (ef6b3d5d), astar edge weight (c165ce5d).",
)
