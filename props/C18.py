# C18 -- path queries return real, optimal paths (graph_engine/src/lib.rs, graph_engine/src/algorithms/*.rs)
CFG = dict(
    dirs=["Common", "C18"], gen=True,
    run_targets=["C18/Run.vo"], proof_targets=["C18/Props.vo"], props="C18/Props.v",
    gen_obligations=[],
    crate="nvh_c18",
    header=H + "From NV.C18 Require Import Model Run.\nOpen Scope N_scope.",
    kinds={"bfs": ("bfs_case", "check_bfs"), "wpath": ("wpath_case", "check_wpath"), "allp": ("allp_case", "check_allp"),
           "varp": ("varp_case", "check_varp"), "trav": ("trav_case", "check_trav"), "astar": ("astar_case", "check_astar"),
           "algo": ("algo_case", "check_algo")},
    known_classes={},
    shard=6,
    rule="seeded random multigraphs",
    trusted_base=COMMON_TB + [],
    assumptions=[],
)
MANIFEST = dict(text="", note="")
