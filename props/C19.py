# C19 -- blob store (tensor_blob/src/{lib,streaming,chunker,gc,integrity}.rs)
CFG = dict(
    dirs=["Common", "C19"], gen=True,
    run_targets=["C19/Run.vo"], proof_targets=["C19/Props.vo"], props="C19/Props.v",
    gen_obligations=[
        "Inst.gen_collectable_spec: gc_cycle's regenerated test deletes a chunk only when its reference count is 0 (and, gen_collectable_age, only when created < now - min_age)",
        "Inst.gen_rdec_spec / gen_rinc_spec: decrement_chunk_refs computes refs-1 floored at 0, increment_chunk_refs refs+1",
        "Inst.gen_fgc_spec / gen_rep_spec: full_gc and integrity::repair scan the records unfinished writers keep of their chunk keys",
        "Inst.gen_locked_spec: store_chunk, the publish step of finish, delete_artifact, gc_cycle's per-chunk test-and-delete, full_gc and repair each hold chunk_lock() over their read-modify-write of chunk records",
    ],
    crate="nvh_c19",
    header=H + "From NV.C19 Require Import Model Run.\nOpen Scope N_scope.",
    kinds={"trace": ("trace_case", "check_trace"), "damage": ("damage_case", "check_damage")},
    known_classes={},
    shard=60,
    rule="seeded put/stream-write/finish/delete/get/gc/full_gc/verify/repair/advance programs over overlapping content with sizes around chunk boundaries, run on the real async BlobStore (tokio) and on the Gallina model",
    trusted_base=COMMON_TB + [
        "modelled, not verified: SHA-256 as an arbitrary function (no injectivity assumed; collision-or statements), its values supplied per case by the implementation's own compute_hash; TensorStore as an association list (scan order never observed: gc's examined keys are an explicit input, dumps are sorted); the wall clock as a logical clock (the harness moves time by rewriting the chunks' _created, all distances >= 500 s from any decision boundary); uuid artifact ids as a counter; metadata/tags/links/embedding fields of artifact records, secondary indexes, DurableBlobStore, the background GC task (gc_cycle on a timer) are outside the model",
        "concurrency: 2-4 tokio tasks (multi-thread runtime) put/stream/delete/gc/full_gc overlapping content; only quiescent verdicts (every existing artifact reads back and verifies; delete-all + full_gc leaves nothing); no schedule hook, so interleavings are sampled, not enumerated",
    ],
    assumptions=[
        "writers are eventually finished or stay open: dropping a BlobWriter without finish() (its chunks keep their counts until full_gc/repair) is not in the op alphabet",
        "gc_cycle's batch (first batch_size keys of a scan) is an arbitrary list of examined keys in the theorems; the correspondence runs use a batch larger than the store",
        "schedules: the theorems quantify over all interleavings of client programs whose steps are atomic; that the implementation's steps are atomic rests on the per-run lock obligation (Inst.gen_locked_spec, syntactic: the lock guard is the first statement of each critical section) and on std::sync::Mutex; reads (get/verify) are not under the lock and are only claimed at quiescence / for artifacts not being deleted concurrently",
    ],
)
MANIFEST = dict(
    text="Chunker round trip (all sizes, all chunk sizes > 0), reads-return-the-bytes-written for every program of put/stream/delete/gc/full_gc/verify/repair (refinement of a byte-string specification; any partition of a stream into writes), the reference-count invariant, delete-leaves-others, collectors never touch a listed chunk, delete-all + full_gc leaves nothing, verify reports missing/altered chunks are Coq theorems over the blob-store model with SHA-256 an arbitrary function (collision-or form over the chunk contents stored in the run); gc/refcount decision expressions and the in-flight-writer scan are regenerated from the Rust sources on every run and their obligations re-proved; the model is compared step by step with the real async BlobStore (chunk table, artifact records, every read and verify after every step), plus verify-under-damage cases and a concurrent stress with quiescent verdicts.",
    note="Trusted: Coq kernel, rs2v.py for the listed expressions, harness + driver. Modelled not verified: SHA-256 (arbitrary function), TensorStore as association list, logical clock, uuid ids as counter. Concurrency: all schedules of atomic steps (lock obligation re-checked per run) + barrier/stress runs with quiescent verdicts.",
)
