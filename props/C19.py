# C19 -- blob store (tensor_blob/src/{lib,streaming,chunker,gc,integrity}.rs)
CFG = dict(
    dirs=["Common", "C19"], gen=True,
    run_targets=["C19/Run.vo"], proof_targets=["C19/Props.vo"], props="C19/Props.v",
    gen_obligations=[],
    crate="nvh_c19",
    header=H + "From NV.C19 Require Import Model Run.\nOpen Scope N_scope.",
    kinds={"trace": ("trace_case", "check_trace"), "damage": ("damage_case", "check_damage")},
    known_classes={},
    shard=60,
    rule="seeded put/stream-write/finish/delete/get/gc/full_gc/verify/repair/advance programs over overlapping content with sizes around chunk boundaries, run on the real async BlobStore (tokio) and on the Gallina model",
    trusted_base=COMMON_TB + [],
    assumptions=[],
)
MANIFEST = dict(text="", note="")
