# C20 -- lossless codecs: varint/delta (tensor_compress), RLE, sparse vector, network frames
CFG = dict(
    dirs=["Common", "C20"], gen=True,
    run_targets=["C20/Run.vo"], proof_targets=["C20/Props.vo"], props="C20/Props.v",
    gen_obligations=[
        "Inst.gen_delta_inv: the subtraction/addition found in delta.rs are exact inverses on all u64 pairs",
        "Inst.gen_dsub_bounded: the stored delta fits a u64",
        "Inst.gen_varint_ok: varint constants (0x7f, 7, 0x80, shift guard 64)",
        "Inst.gen_v2_ok: encode_v2 checks the uncompressed size against max_frame_length before compressing",
        "Inst.gen_v2_frame_ok: encode_v2 checks the frame content (flags + payload) against max_frame_length",
        "Inst.gen_validator_ok: EmbeddingValidator checks equal lengths, every position < dimension, strictly ascending positions",
        "Inst.gen_block_request_ok: validate_block_request tests the range order and counts blocks with saturating (non-wrapping) u64 arithmetic",
        "Inst.gen_flags_ok: frame flag bytes and MAX_DECOMPRESSED_SIZE",
    ],
    crate="nvh_c20",
    header=H + "From NV.C20 Require Import Model Run.\nOpen Scope N_scope.",
    kinds={
        "varint": ("varint_case", "check_varint"), "vdec": ("vdec_case", "check_vdec"),
        "delta": ("delta_case", "check_delta"), "rle": ("rle_case", "check_rle"),
        "sparse": ("sparse_case", "check_sparse"), "frame": ("frame_case", "check_frame"),
        "split": ("split_case", "check_split"), "valid": ("valid_case", "check_valid"), "breq": ("breq_case", "check_breq"), "fsparse": ("fsparse_case", "check_fsparse"), "parts": ("parts_case", "check_parts"), "fdec": ("fdec_case", "check_fdec"), "svset": ("svset_case", "check_svset"),
    },
    known_classes={},
    shard=150,
    rule="seeded values per codec (extreme/boundary u64, sorted/unsorted/duplicate id lists, f32 specials as bit patterns, Message variants with limits chosen around their serialized and compressed sizes, arbitrary bytes for decoders) run through the real functions and through the Gallina model",
    trusted_base=COMMON_TB + [
        "premises (Section hypotheses of the frame theorems), exercised by the harness on every generated Message: bitcode::deserialize(serialize(m)) = m, lz4 decompress(compress(d)) = d",
        "modelled, not verified: Vec/usize as list/N; SparseVector::from_dense/to_dense/get only (threshold variants and arithmetic are outside the model); EmbeddingValidator's magnitude test is a refusal oracle (floating point); WAL record framing and snapshot header codecs are proved under C02/C10/C13 (Common/WalFormat) and C07; the async read_frame I/O loop is reduced to split_frame on a byte string",
        "not covered by a theorem (tested only): tensor-train reconstruction error bound (lossy; no Coq theorem about SVD truncation), bitcode decoding of arbitrary bytes (fuzzed for panics only), allocation sizes requested by RLE decode (no declared limit exists)",
    ],
    assumptions=["-0.0 read back as +0.0 from sparse storage is counted as exact (IEEE-equal); every other bit pattern must be identical"],
)
MANIFEST = dict(
    text="Round-trip theorems for all inputs: varint (every u64 list), delta/compress_ids with the arithmetic regenerated from delta.rs (every list, unsorted and duplicates included), RLE (+ length), sparse vector (bit patterns), v1/v2 network frames through split+decode for any inverse serializer/compressor pair, safety of the varint decoder and frame splitter on arbitrary bytes (bounded output, bounded buffering), and: a sparse vector that EmbeddingValidator accepts (checks regenerated from the source) is indexed in range by to_dense/get, whatever the deserialiser produced; SparseVector::from_parts on the pairs of a dense vector equals from_dense and reads back bit-identically; tensor_compress::format's sparse decoder returns exactly `dimension` entries for any forged position list. The model is compared with the real functions on seeded cases per codec; all four frame readers/writers are driven on every frame and on arbitrary bytes; decoders are fuzzed (truncation, bit flips, hostile lz4 size prefixes) for panics.",
    note="Trusted: Coq kernel, rs2v.py + gen_C20.py (delta operators, varint constants, presence of the encode_v2 size check, flag constants), harness + driver. bitcode/lz4 are premises exercised on every generated message. Lossy tensor-train bound is not a theorem (partial).",
)
