#!/bin/sh
# Run once after a fresh restore (offline): regenerate the translated definitions from /repo,
# build the whole Coq development (full .vo build) and pre-build every harness crate so the
# per-property checks are incremental.  Everything lives under /verif (.cache/, coq/*.vo).
set -e
cd "$(dirname "$0")"
export CARGO_NET_OFFLINE=true GOPROXY=off PIP_NO_INDEX=1
python3 - <<'PY'
import sys
sys.path.insert(0, ".")
from vlib import core
from vlib.props import PROPS
for pid, cfg in sorted(PROPS.items()):
    if cfg.get("gen"):
        core.run_translator(pid)
core.write_coqproject()
ok, log = core.coq_make([], timeout=3000)
print(log[-3000:])
if not ok:
    print("setup: Coq build FAILED (checks will report it per property)")
crates = sorted({cfg["crate"] for cfg in PROPS.values()})
for c in crates:
    ok, out, _ = core.harness_build(c, release=False)
    print("harness", c, "ok" if ok else "FAILED\n" + out[-2000:])
PY
