#!/bin/bash
# tools/confirm_mutant.sh <worktree> <n> <crate> <lib-test-filter>
# Confirms a seeded change independently: demonstration fails with it, passes without it, and the
# crate's own tests still pass with it.  Uses a target dir inside the worktree; prints a summary line.
wt=$1; n=$2; crate=$3; filter=$4
export CARGO_TARGET_DIR="$1/confirm-target" CARGO_NET_OFFLINE=true
cd "$wt" || exit 2
git checkout -q -- . 2>/dev/null
demo=$(ls out/$n/*.rs | head -1)
name=$(basename "$demo" .rs)
mkdir -p "$crate/tests"; cp "$demo" "$crate/tests/$name.rs"
echo "== [$wt #$n] without change: demo"
cargo test --offline -q -p "$crate" --test "$name" > out/$n/confirm_without.log 2>&1; w=$?
git apply out/$n/patch.diff || { echo "PATCH DOES NOT APPLY"; exit 3; }
echo "== with change: demo"
cargo test --offline -q -p "$crate" --test "$name" > out/$n/confirm_with.log 2>&1; c=$?
echo "== with change: crate tests ($filter)"
cargo test --offline -q -p "$crate" --lib $filter > out/$n/confirm_crate.log 2>&1; k=$?
fails=$(grep -E "^test .* FAILED|^    [a-z_:0-9]+$" out/$n/confirm_crate.log | grep -vE "readonly|permission_denied|disk_full|io_error_on_failure|truncate_error_handling|exact_boundary|exact_timeout|performance|no_resize_stall" | sort -u | tr '\n' ' ')
git checkout -q -- . ; rm -f "$crate/tests/$name.rs"
echo "SUMMARY $wt #$n demo_without_rc=$w demo_with_rc=$c crate_rc=$k unexpected_failures=[$fails]"
