#!/bin/bash
# tools/coqchk_all.sh -- re-check every property's compiled Props file (and all it depends on) with the
# independent checker and list the axioms it relies on.  Needs a completed build (./check <ID> for each).
cd /verif/coq
out=/verif/coqchk_report.txt
: > $out
for d in C*/; do
  id=${d%/}
  [ -f $id/Props.vo ] || continue
  echo "== $id" >> $out
  timeout 1800 coqchk -silent -o -Q . NV NV.$id.Props 2>&1 | sed -n '/CONTEXT SUMMARY/,$p' | grep -v "^$\|^=*$\|CONTEXT SUMMARY" >> $out
done
echo "written $out"
