#!/usr/bin/env python3
"""Regenerate /verif/MANIFEST.json from vlib/props.py + tools/manifest_meta.json."""
import json
import os
import sys

ROOT = os.path.dirname(os.path.dirname(os.path.abspath(__file__)))
sys.path.insert(0, ROOT)
from vlib.props import PROPS, MANIFESTS  # noqa: E402

meta = json.load(open(os.path.join(ROOT, "tools", "manifest_meta.json")))
all_ids = [json.loads(l)["id"] for l in open(os.path.join(ROOT, "properties.jsonl"))]
checks = []
for pid in all_ids:
    if pid not in PROPS or pid in meta.get("withdrawn", {}) or pid not in meta.get("ready", []):
        continue
    m = MANIFESTS.get(pid, {})
    checks.append({
        "property_id": pid,
        "quick_cmd": "./check %s --tier quick" % pid,
        "thorough_cmd": "./check %s --tier thorough" % pid,
        "evidence_file": "/verif/evidence/%s.json" % pid,
        "replay_cmd_template": "./check %s --replay {path}" % pid,
        "engine": "coq-model+correspondence",
        "level_claimed": {"category": m.get("category", "proof"), "text": m.get("text", ""), "design_ref": m.get("design_ref", "DESIGN.md section 3, " + pid)},
        "level_note": m.get("note", ""),
        "technique": m.get("technique", "machine-checked proof in Coq 8.16 over an executable Gallina model, tied to the code by a per-run translator obligation and a correspondence check (model evaluated by vm_compute on the harness' cases)"),
    })
na = []
for pid in all_ids:
    if pid not in PROPS or pid in meta.get("withdrawn", {}) or pid not in meta.get("ready", []):
        na.append({"property_id": pid, "reason": meta.get("withdrawn", {}).get(pid) or meta.get("not_built", {}).get(pid, "check not built yet (work in progress; see DESIGN.md section 7)")})
man = {
    "version": 1,
    "setup_cmd": "./setup.sh",
    "hooks": meta["hooks"],
    "engines": [{"name": "coq-model+correspondence", "path": "/verif/check", "serves_properties": [c["property_id"] for c in checks],
                 "kind_free_text": "Coq 8.16.1 development under /verif/coq (Model/Proofs/Props/Run per property), translator /verif/translator/rs2v.py, Rust harness workspace /verif/harness, Python driver /verif/vlib"}],
    "checks": checks,
    "notes": meta.get("notes", ""),
    "not_applicable": na,
}
with open(os.path.join(ROOT, "MANIFEST.json"), "w") as f:
    json.dump(man, f, indent=1)
    f.write("\n")
print("MANIFEST.json: %d checks, %d not claimed" % (len(checks), len(na)))
