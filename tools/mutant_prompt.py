#!/usr/bin/env python3
"""print the prompt for a blind mutation agent: tools/mutant_prompt.py C01 1"""
import json, sys
pid, k = sys.argv[1], sys.argv[2]
p = [json.loads(l) for l in open('/verif/properties.jsonl') if json.loads(l)['id'] == pid][0]
wt = "/tmp/mut-%s-%s" % (pid.lower(), k)
print(f"""You are testing how well a verification effort detects regressions in the Rust repository Shadylukin/Neumann (a multi-model database with its own Raft, 2PC, WALs, HNSW and parser). You work ONLY in your own scratch git worktree of the repository; create it first:

    git -C /repo worktree add {wt} HEAD

and use CARGO_TARGET_DIR={wt}/target CARGO_NET_OFFLINE=true with `cargo ... --offline` for every build (there is no network; never run cargo inside /repo itself, never edit anything under /repo or /verif, never read anything under /verif).

The property under test:

TITLE: {p['title']}
STATEMENT: {p['statement']}
QUANTIFIED OVER: {p['quantifier']['text']}
RELEVANT FILES: {', '.join(p['anchors']['files'])}

YOUR TASK: produce THREE different, realistic source changes (each independent of the others, each a small edit of the kind a maintainer could plausibly make during a refactor, optimisation or "fix"), each of which
  (a) BREAKS the property above,
  (b) still compiles, and
  (c) still passes the existing test suite of the crate(s) it touches (run `cargo test --offline -p <crate>` for each touched crate in your worktree with and without your change; tests that already fail on the unchanged tree do not count: the following are known to fail or flake on the unchanged tree and can be ignored: any test whose name contains readonly, permission_denied, disk_full, io_error_on_failure, truncate_error_handling, test_key_lock_is_expired_exact_boundary, test_participant_recover_exact_timeout_not_expired, test_jepsen_split_brain_heal_single_leader, test_evaluate_performance_improvement).
Prefer changes that need something SPECIFIC to manifest — a particular interleaving or message order, a crash or fault at a particular point, a multi-step sequence of operations, an unusual input, or two cooperating sites that each look fine alone — NOT ones that ordinary use would expose at once.

For EACH change deliver, in the directory {wt}/out/<n>/ (n = 1, 2, 3):
  * patch.diff — `git diff` of the change against HEAD (only that change; revert between changes with `git checkout -- .`),
  * a demonstration: a self-contained Rust test file or small program (say how to place/run it, e.g. as an extra file under <crate>/tests/ in the worktree) that FAILS with the change applied and PASSES without it, exercising only public API (or, if unavoidable, existing test helpers),
  * notes.md — which clause of the property it breaks, what is needed for it to manifest, the exact commands you ran and their outcome (demonstration fails with / passes without; crate tests still pass with the change).
When all three are done, remove build output to save disk (`rm -rf {wt}/target`) but keep {wt}/out, and reply with a short summary listing the three changes and the paths. Do not stop early: verify every claim by actually running it.""")
