#!/usr/bin/env python3
"""tools/process_round.py <PID> <round> [--no-confirm]
Import the three changes a blind sub-agent left in /tmp/mut-<pid>-<round>/out/{1,2,3} into
seeded/<PID>-<pid>r<round>-<n>/, confirm each independently (tools/confirm_mutant.sh), run the check
against it (tools/run_seeded.sh: exclusive /repo lock, apply, ./check, restore) and write meta.json."""
import json, os, re, shutil, subprocess, sys

ROOT = os.path.dirname(os.path.dirname(os.path.abspath(__file__)))
pid, rnd = sys.argv[1], sys.argv[2]
confirm = "--no-confirm" not in sys.argv
low = pid.lower()
wt = "/tmp/mut-%s-%s" % (low, rnd)
head = subprocess.check_output(["git", "-C", "/repo", "rev-parse", "--short=8", "HEAD"]).decode().strip()
for n in (1, 2, 3):
    src = os.path.join(wt, "out", str(n))
    if not os.path.isdir(src):
        print("missing", src); continue
    name = "%s-%sr%s-%d" % (pid, low, rnd, n)
    dst = os.path.join(ROOT, "seeded", name)
    os.makedirs(dst, exist_ok=True)
    for f in os.listdir(src):
        if os.path.isfile(os.path.join(src, f)) and not f.startswith("confirm_"):
            shutil.copy(os.path.join(src, f), os.path.join(dst, f))
    patch = open(os.path.join(dst, "patch.diff")).read()
    m = re.search(r"^\+\+\+ b/([^/\n]+)/", patch, re.M)
    crate = m.group(1) if m else "tensor_store"
    # the demonstration lives in the highest-level crate it imports (it may sit above the patched crate)
    demos = [f for f in os.listdir(dst) if f.endswith(".rs")]
    if demos:
        dsrc = open(os.path.join(dst, demos[0])).read()
        for c in ["integration_tests", "query_router", "neumann_server", "vector_engine", "relational_engine", "graph_engine",
                  "tensor_chain", "tensor_vault", "tensor_blob", "tensor_cache", "tensor_checkpoint", "tensor_unified"]:
            if re.search(r"\buse %s::|\b%s::" % (c, c), dsrc) and os.path.isdir(os.path.join(wt, c)):
                crate = c
                break
    conf = "not run"
    if confirm:
        out = subprocess.run([os.path.join(ROOT, "tools", "confirm_mutant.sh"), wt, str(n), crate, ""],
                             capture_output=True, text=True).stdout
        s = [l for l in out.splitlines() if l.startswith("SUMMARY")]
        conf = s[-1] if s else "no summary: " + out[-300:]
    print(name, "::", conf[:300])
    out = subprocess.run([os.path.join(ROOT, "tools", "run_seeded.sh"), pid, os.path.join(dst, "patch.diff"), "quick"],
                         capture_output=True, text=True).stdout
    lines = [l for l in out.splitlines() if l.startswith("VIOLATION") or l.startswith("check ") or l.startswith("RC=")]
    rc = [l for l in lines if l.startswith("RC=")]
    viol = [l for l in lines if l.startswith("VIOLATION")]
    if rc and rc[-1] == "RC=0":
        res = "MISSED (check exit 0)"
    elif viol and "no-failing-input-found" in viol[0]:
        res = "detected: VIOLATION ... no-failing-input-found"
    elif viol:
        res = "caught: VIOLATION with a concrete failing input (quick tier)"
    else:
        res = "check broken: " + " | ".join(lines)[:200]
    rp = os.path.join(ROOT, "replays", "%s-quick-1.json" % pid)
    if viol and os.path.exists(rp):
        shutil.copy(rp, os.path.join(dst, "replay_first_run.json"))
    notes = open(os.path.join(dst, "notes.md")).read() if os.path.exists(os.path.join(dst, "notes.md")) else ""
    title = next((l.strip("# ").strip() for l in notes.splitlines() if l.strip()), "?")
    meta = {
        "property": pid, "check_result_current": res, "check_result_current_at": head,
        "change": title, "needs_to_manifest": "see notes.md", "round": int(rnd),
        "produced_by": "blind sub-agent (property text + own git worktree + a list of changes already made in earlier rounds; nothing from /verif)",
        "confirmed": "tools/confirm_mutant.sh in the agent's worktree: " + conf,
        "check_run": "tools/run_seeded.sh <PID> patch.diff (git -C /repo apply; ./check; restore)",
        "check_result_round%s_first_run" % rnd: res,
    }
    json.dump(meta, open(os.path.join(dst, "meta.json"), "w"), indent=1)
    print(name, "::", res)
