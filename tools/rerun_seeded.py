#!/usr/bin/env python3
"""tools/rerun_seeded.py [<seeded-dir-name-prefix> ...]
Apply each seeded change to /repo (one at a time, /repo must be clean), run ./check <PID> in the quick
tier, undo the change, and record the outcome in seeded/<dir>/meta.json under check_result_current."""
import json, os, re, subprocess, sys, time
ROOT = "/verif"
def main():
    pre = sys.argv[1:]
    dirs = sorted(d for d in os.listdir(os.path.join(ROOT, "seeded")) if not pre or any(d.startswith(p) for p in pre))
    for d in dirs:
        pid = d.split("-")[0]
        patch = os.path.join(ROOT, "seeded", d, "patch.diff")
        if not os.path.exists(patch):
            continue
        # a later fix: commit may have touched the same lines; the same change rebased is kept beside the original
        reb = sorted(f for f in os.listdir(os.path.join(ROOT, "seeded", d)) if f.startswith("patch.rebased"))
        if reb:
            patch = os.path.join(ROOT, "seeded", d, reb[-1])
        for attempt in range(30):
            st = subprocess.run(["git", "-C", "/repo", "status", "--porcelain"], capture_output=True, text=True).stdout
            if not st.strip():
                break
            time.sleep(60)
        else:
            print(d, "SKIPPED: /repo never clean"); continue
        r = subprocess.run([os.path.join(ROOT, "tools", "run_seeded.sh"), pid, patch], capture_output=True, text=True)
        out = r.stdout
        m = re.search(r"RC=(\d+)", out)
        rc = int(m.group(1)) if m else -1
        if "PATCH DOES NOT APPLY" in out:
            res = "patch no longer applies to /repo HEAD (a later fix: commit changed the same lines)"
        elif rc == 0:
            res = "MISSED (check exit 0)"
        elif "no-failing-input-found" in out:
            res = "caught: proof obligation or correspondence broke; VIOLATION ... no-failing-input-found"
        elif "VIOLATION" in out:
            res = "caught: VIOLATION with a concrete failing input (quick tier)"
        else:
            res = "check exited %d without a VIOLATION line" % rc
        mp = os.path.join(ROOT, "seeded", d, "meta.json")
        meta = json.load(open(mp)) if os.path.exists(mp) else {"property": pid}
        meta["check_result_current"] = res
        meta["check_result_current_at"] = subprocess.run(["git", "-C", "/repo", "rev-parse", "--short", "HEAD"], capture_output=True, text=True).stdout.strip()
        json.dump(meta, open(mp, "w"), indent=1)
        print(d, "->", res, flush=True)
main()
