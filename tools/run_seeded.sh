#!/bin/bash
# tools/run_seeded.sh <PID> <patch.diff> [tier]  -- apply a seeded change to /repo, run ./check, undo it.
# Holds the exclusive /repo lock (checks hold the shared one), waits until /repo is clean, restores exactly
# the files the patch touched.
pid=$1; patch=$2; tier=${3:-quick}
mkdir -p /verif/.cache; exec 9>/verif/.cache/repo.lock; flock -x 9; export NV_REPO_LOCK_HELD=1
for i in $(seq 1 40); do
  [ -z "$(git -C /repo status --porcelain)" ] && break
  sleep 30
done
if [ -n "$(git -C /repo status --porcelain)" ]; then echo "REPO NOT CLEAN"; git -C /repo status --short; exit 9; fi
git -C /repo apply "$patch" || { echo "PATCH DOES NOT APPLY"; exit 3; }
files=$(git -C /repo status --porcelain | awk '{print $2}')
cd /verif && timeout 3000 ./check "$pid" --tier "$tier" > /tmp/seedrun_$pid.log 2>&1; rc=$?
grep -E "VIOLATION|KNOWN-FINDING|^check " /tmp/seedrun_$pid.log | cut -c1-400 | head -8
echo "RC=$rc"
for f in $files; do
  if git -C /repo ls-files --error-unmatch "$f" >/dev/null 2>&1; then git -C /repo checkout -- "$f"; else rm -rf "/repo/$f"; fi
done
git -C /repo status --short
