#!/usr/bin/env python3
import json, glob, sys
import jsonschema
ok = True
jsonschema.validate(json.load(open('/verif/MANIFEST.json')), json.load(open('/root/.vp/MANIFEST.schema.json')))
es = json.load(open('/root/.vp/EVIDENCE.schema.json'))
for f in sorted(glob.glob('/verif/evidence/*.json')):
    try:
        jsonschema.validate(json.load(open(f)), es)
    except Exception as e:
        ok = False
        print("INVALID", f, str(e)[:300])
print("valid" if ok else "problems")
