"""C01: the follower's acknowledgement rule, the stale-response rule and the quorum size.
   gen_follower_ack prev_i lastnew len          value assigned to match_index in handle_append_entries
   gen_follower_commit lc commit prev_i lastnew len   value assigned to volatile.commit_index (when lc > commit)
   gen_stale_ack_ignored                        handle_append_entries_response drops responses with a lower term
   gen_quorum total                             crate::quorum_size
   (lastnew = index of the last entry the request carried, or prev_i when it carried none)"""
import os
import re
import sys

sys.path.insert(0, os.path.dirname(os.path.abspath(__file__)))
from rs2v import HEADER, Env, coq, find_fn, match_brace, parse_expr, read, strip_comments  # noqa: E402

LASTNEW_PAT = re.compile(
    r"ae\s*\.\s*entries\s*\.\s*last\(\)\s*\.\s*map_or\(\s*ae\.prev_log_index\s*,\s*\|\s*(\w+)\s*\|\s*\1\.index\s*,?\s*\)", re.S)


def generate(repo):
    items = {}
    ack = "len"
    com = "(N.min lc len)"
    paths = {
        "persistent.array_len_as_log_index()": "len", "ae.leader_commit": "lc", "volatile.commit_index": "commit",
        "ae.prev_log_index": "prev_i", "LASTNEW": "lastnew",
    }
    try:
        src = strip_comments(read(repo, "tensor_chain/src/raft.rs"))
        _, body = find_fn(src, "handle_append_entries")
        m = re.search(r"if\s+log_ok\s*\{", body)
        if not m:
            raise KeyError("`if log_ok {` not found")
        i = body.index("{", m.start())
        blk = LASTNEW_PAT.sub("LASTNEW", body[i + 1:match_brace(body, i)])
        env = dict(paths)
        for lm in re.finditer(r"let\s+(\w+)\s*=\s*([^;]+);", blk):
            name, rhs = lm.group(1), lm.group(2)
            if name in ("mut",) or "self." in rhs or "write()" in rhs:
                continue
            try:
                env[name] = "(" + coq(parse_expr(rhs), Env(env)) + ")"
            except Exception:
                pass
        ma = re.search(r"(?<![\w.])match_index\s*=\s*([^;]+);", blk)
        mc = re.search(r"volatile\s*\.\s*commit_index\s*=\s*([^;]+);", blk)
        if not ma or not mc:
            raise KeyError("assignments to match_index / volatile.commit_index not found")
        ack = coq(parse_expr(ma.group(1)), Env(env))
        com = coq(parse_expr(mc.group(1)), Env(env))
        items["follower_ack"] = "translated"
        items["follower_commit"] = "translated"
    except Exception as ex:
        items["follower_ack"] = items["follower_commit"] = "miss:%s" % ex

    stale = "false"
    try:
        src = strip_comments(read(repo, "tensor_chain/src/raft.rs"))
        _, body = find_fn(src, "handle_append_entries_response")
        cut = body.find("should_advance_commit")
        pre = body if cut < 0 else body[:cut]
        pat = r"if\s+aer\.term\s*(?:<|!=)\s*persistent\.current_term\s*\{\s*return\s*;?\s*\}"
        stale = "true" if re.search(pat, pre) else "false"
        items["stale_ack_ignored"] = "translated"
    except Exception as ex:
        items["stale_ack_ignored"] = "miss:%s" % ex

    quorum = "(total / 2 + 1)"
    try:
        src = strip_comments(read(repo, "tensor_chain/src/lib.rs"))
        sig, body = find_fn(src, "quorum_size")
        pm = re.search(r"\(\s*(\w+)\s*:", sig)
        quorum = coq(parse_expr(body.strip()), Env({pm.group(1): "total"}))
        items["quorum_size"] = "translated"
    except Exception as ex:
        items["quorum_size"] = "miss:%s" % ex

    text = HEADER + """From NV.Common Require Import Base.
Open Scope N_scope.

(* tensor_chain/src/raft.rs handle_append_entries, inside `if log_ok { ... }` *)
Definition gen_follower_ack (prev_i lastnew len : N) : N := %s.
Definition gen_follower_commit (lc commit prev_i lastnew len : N) : N := %s.
(* handle_append_entries_response returns early when aer.term < current_term *)
Definition gen_stale_ack_ignored : bool := %s.
(* tensor_chain/src/lib.rs quorum_size(total_nodes) *)
Definition gen_quorum (total : N) : N := %s.
""" % (ack, com, stale, quorum)
    return text, items
