"""C01: the follower's acknowledgement rule, the stale-response rule and the quorum size.
   gen_follower_ack prev_i lastnew len          value assigned to match_index in handle_append_entries
   gen_follower_commit lc commit prev_i lastnew len   value assigned to volatile.commit_index (when lc > commit)
   gen_stale_ack_ignored                        handle_append_entries_response drops responses with a lower term
   gen_quorum total                             crate::quorum_size
   gen_vote_log_ok lli llt mli mlt gok          handle_request_vote: the candidate's log is acceptable (log_ok)
   gen_prev_ok xt pt                            handle_append_entries: the entry at prev_log_index matches prev_log_term
   gen_commit_pick len qn                       try_advance_commit_index: position picked in the sorted match list
   gen_commit_term_ok et cur                    try_advance_commit_index: the entry at the new index is of the current term
   gen_entries_need_prev                        get_entries_for_follower sends entries only with a prev entry still in the log
   gen_gap_refused                              append_leader_entries refuses an entry that is not the direct successor of the log
   gen_finalize_ok h c len                      finalize_to: the requested height is accepted
   (lastnew = index of the last entry the request carried, or prev_i when it carried none)"""
import os
import re
import sys

sys.path.insert(0, os.path.dirname(os.path.abspath(__file__)))
from rs2v import HEADER, Env, coq, find_fn, match_brace, parse_expr, read, strip_comments  # noqa: E402

LASTNEW_PAT = re.compile(
    r"ae\s*\.\s*entries\s*\.\s*last\(\)\s*\.\s*map_or\(\s*ae\.prev_log_index\s*,\s*\|\s*(\w+)\s*\|\s*\1\.index\s*,?\s*\)", re.S)


def generate(repo):
    items = {}
    ack = "len"
    com = "(N.min lc len)"
    paths = {
        "persistent.array_len_as_log_index()": "len", "ae.leader_commit": "lc", "volatile.commit_index": "commit",
        "ae.prev_log_index": "prev_i", "LASTNEW": "lastnew",
    }
    try:
        src = strip_comments(read(repo, "tensor_chain/src/raft.rs"))
        _, body = find_fn(src, "handle_append_entries")
        m = re.search(r"if\s+log_ok\s*\{", body)
        if not m:
            raise KeyError("`if log_ok {` not found")
        i = body.index("{", m.start())
        blk = LASTNEW_PAT.sub("LASTNEW", body[i + 1:match_brace(body, i)])
        env = dict(paths)
        for lm in re.finditer(r"let\s+(\w+)\s*=\s*([^;]+);", blk):
            name, rhs = lm.group(1), lm.group(2)
            if name in ("mut",) or "self." in rhs or "write()" in rhs:
                continue
            try:
                env[name] = "(" + coq(parse_expr(rhs), Env(env)) + ")"
            except Exception:
                pass
        ma = re.search(r"(?<![\w.])match_index\s*=\s*([^;]+);", blk)
        mc = re.search(r"volatile\s*\.\s*commit_index\s*=\s*([^;]+);", blk)
        if not ma or not mc:
            raise KeyError("assignments to match_index / volatile.commit_index not found")
        ack = coq(parse_expr(ma.group(1)), Env(env))
        com = coq(parse_expr(mc.group(1)), Env(env))
        items["follower_ack"] = "translated"
        items["follower_commit"] = "translated"
    except Exception as ex:
        items["follower_ack"] = items["follower_commit"] = "miss:%s" % ex

    stale = "false"
    try:
        src = strip_comments(read(repo, "tensor_chain/src/raft.rs"))
        _, body = find_fn(src, "handle_append_entries_response")
        cut = body.find("should_advance_commit")
        pre = body if cut < 0 else body[:cut]
        pat = r"if\s+aer\.term\s*(?:<|!=)\s*persistent\.current_term\s*\{\s*return\s*;?\s*\}"
        stale = "true" if re.search(pat, pre) else "false"
        items["stale_ack_ignored"] = "translated"
    except Exception as ex:
        items["stale_ack_ignored"] = "miss:%s" % ex

    quorum = "(total / 2 + 1)"
    try:
        src = strip_comments(read(repo, "tensor_chain/src/lib.rs"))
        sig, body = find_fn(src, "quorum_size")
        pm = re.search(r"\(\s*(\w+)\s*:", sig)
        quorum = coq(parse_expr(body.strip()), Env({pm.group(1): "total"}))
        items["quorum_size"] = "translated"
    except Exception as ex:
        items["quorum_size"] = "miss:%s" % ex


    # ---- handle_request_vote: log_ok -------------------------------------------------------------
    vote = "(N.ltb mlt llt || (N.eqb llt mlt && N.ltb mli lli) || ((N.eqb llt mlt && N.eqb lli mli) && gok))"
    try:
        src = strip_comments(read(repo, "tensor_chain/src/raft.rs"))
        _, body = find_fn(src, "handle_request_vote")
        env = {"rv.last_log_term": "llt", "rv.last_log_index": "lli", "last_log_term": "mlt", "last_log_index": "mli",
               "geometric_ok": "gok"}
        for lm in re.finditer(r"let\s+(log_strictly_better|log_equal|log_ok)\s*=\s*([^;]+);", body):
            env[lm.group(1)] = "(" + coq(parse_expr(lm.group(2)), Env(env)) + ")"
        if "log_ok" not in env:
            raise KeyError("`let log_ok = ...` not found")
        if not re.search(r"if\s+can_vote\s*&&\s*log_ok\s*&&\s*candidate_healthy\s*\{", body):
            raise KeyError("grant condition `can_vote && log_ok && candidate_healthy` not found")
        vote = env["log_ok"]
        items["vote_log_ok"] = "translated"
    except Exception as ex:
        items["vote_log_ok"] = "miss:%s" % ex

    # ---- handle_append_entries: prev-entry check -------------------------------------------------
    prev = "(N.eqb xt pt)"
    try:
        src = strip_comments(read(repo, "tensor_chain/src/raft.rs"))
        _, body = find_fn(src, "handle_append_entries")
        m = re.search(r"let\s+log_ok\s*=\s*if\s+ae\.prev_log_index\s*==\s*0\s*\{\s*true\s*\}\s*else\s+if\s+ae\.prev_log_index\s*<=\s*"
                      r"persistent\.array_len_as_log_index\(\)\s*\{(.*?)\}\s*else\s*\{\s*false\s*\}\s*;", body, re.S)
        if not m:
            raise KeyError("`let log_ok = if prev == 0 {true} else if prev <= len {..} else {false};` not found")
        mm = re.search(r"\.map_or\(\s*true\s*,\s*\|\s*(\w+)\s*\|\s*\{?\s*\1\s*<\s*persistent\.log\.len\(\)\s*&&\s*([^}]+?)\s*\}?\s*\)", m.group(1), re.S)
        if not mm:
            raise KeyError("prev-entry closure not recognised")
        idx = mm.group(1)
        rhs = re.sub(r"persistent\.log\[\s*%s\s*\]\.term" % idx, "LOGTERM", mm.group(2))
        prev = coq(parse_expr(rhs), Env({"LOGTERM": "xt", "ae.prev_log_term": "pt"}))
        items["prev_ok"] = "translated"
    except Exception as ex:
        items["prev_ok"] = "miss:%s" % ex

    # ---- try_advance_commit_index ----------------------------------------------------------------
    pick = "(len - qn)"
    cterm = "(N.eqb et cur)"
    try:
        src = strip_comments(read(repo, "tensor_chain/src/raft.rs"))
        _, body = find_fn(src, "try_advance_commit_index")
        if not re.search(r"match_indices\.push\(\s*persistent\.array_len_as_log_index\(\)\s*\)", body) or \
           not re.search(r"match_indices\.sort(_unstable)?\(\)", body):
            raise KeyError("match list construction (values + own length, sorted ascending) not recognised")
        m1 = re.search(r"let\s+quorum_idx\s*=\s*([^;]+);", body)
        m2 = re.search(r"let\s+new_commit\s*=\s*match_indices\[\s*quorum_idx\s*\]\s*;", body)
        if not m1 or not m2:
            raise KeyError("quorum_idx / new_commit not found")
        pick = coq(parse_expr(m1.group(1)), Env({"match_indices.len()": "len", "self.quorum_size()": "qn"}))
        if not re.search(r"if\s+new_commit\s*>\s*volatile\.commit_index\s*\{", body):
            raise KeyError("`if new_commit > volatile.commit_index` not found")
        m3 = re.search(r"if\s+(\w+)\s*<\s*persistent\.log\.len\(\)\s*&&\s*([^{]+?)\s*\{\s*volatile\.commit_index\s*=\s*new_commit\s*;", body, re.S)
        if not m3:
            raise KeyError("term guard of the commit not recognised")
        rhs = re.sub(r"persistent\.log\[\s*%s\s*\]\.term" % m3.group(1), "LOGTERM", m3.group(2))
        cterm = coq(parse_expr(rhs), Env({"LOGTERM": "et", "persistent.current_term": "cur"}))
        items["commit_pick"] = "translated"
        items["commit_term_ok"] = "translated"
    except Exception as ex:
        items["commit_pick"] = items["commit_term_ok"] = "miss:%s" % ex

    # ---- get_entries_for_follower: entries only together with a prev entry the leader can still name
    # true  = the guarded shape (prev as Option, entries only if prev.is_some());
    # false = the unguarded shape that existed before the repair (prev via map_or((0, 0), ..), entries unconditionally);
    # any other shape = translator miss (hand-written default, correspondence check only)
    need_prev = "true"
    try:
        src = strip_comments(read(repo, "tensor_chain/src/raft.rs"))
        _, body = find_fn(src, "get_entries_for_follower")
        m = re.search(r"let\s+(\w+)\s*=\s*if\s+next_idx\s*<=\s*1\s*\{\s*Some\(\(0,\s*0\)\)\s*\}\s*else\s*\{(.*?)\}\s*;", body, re.S)
        guarded = False
        if m and re.search(r"\.map\(", m.group(2)) and not re.search(r"map_or\(", m.group(2)):
            pv = m.group(1)
            if re.search(r"let\s+entries\s*=\s*if\s+%s\.is_some\(\)\s*\{(.*?)\}\s*else\s*\{\s*Vec::new\(\)\s*\}\s*;" % pv, body, re.S):
                guarded = True
        unguarded = bool(re.search(r"\.map_or\(\s*\(0,\s*0\)", body)) and bool(
            re.search(r"let\s+entries\s*=\s*persistent\s*\.\s*log_index_to_array_index\(\s*next_idx\s*\)", body))
        if guarded:
            need_prev = "true"
        elif unguarded:
            need_prev = "false"
        else:
            raise KeyError("neither the guarded nor the unguarded shape recognised")
        items["entries_need_prev"] = "translated"
    except Exception as ex:
        items["entries_need_prev"] = "miss:%s" % ex

    # ---- append_leader_entries: an entry beyond the end is pushed only as the direct successor of the log
    gap = "false"
    try:
        src = strip_comments(read(repo, "tensor_chain/src/raft.rs"))
        _, body = find_fn(src, "append_leader_entries")
        m = re.search(r"if\s+entry\.index\s*>\s*(\w+)\s*\{(.*?)persistent\.log\.push\(", body, re.S)
        if not m:
            raise KeyError("push branch not found")
        if re.search(r"if\s+entry\.index\s*!=\s*%s\s*\+\s*1\s*\{\s*return\s+false\s*;\s*\}" % m.group(1), m.group(2)):
            gap = "true"
        items["gap_refused"] = "translated"
    except Exception as ex:
        items["gap_refused"] = "miss:%s" % ex

    # ---- finalize_to: which heights are accepted
    fin_ok = "(N.leb h c)"
    try:
        src = strip_comments(read(repo, "tensor_chain/src/raft.rs"))
        _, body = find_fn(src, "finalize_to")
        env = {"height": "h"}
        for lm in re.finditer(r"let\s+(\w+)\s*=\s*([^;]+);", body):
            rhs = lm.group(2)
            if "commit_index" in rhs:
                env[lm.group(1)] = "c"
            elif "array_len_as_log_index" in rhs or "log.len()" in rhs:
                env[lm.group(1)] = "len"
        m = re.search(r"if\s+([^{]+?)\s*\{\s*return\s+Err\(", body, re.S)
        if not m:
            raise KeyError("rejection test not found")
        rest = body[m.end():]
        if re.search(r"return\s+Err\(", rest):
            raise KeyError("more than one rejection test")
        fin_ok = "(negb %s)" % coq(parse_expr(m.group(1)), Env(env))
        items["finalize_ok"] = "translated"
    except Exception as ex:
        items["finalize_ok"] = "miss:%s" % ex

    text = HEADER + """From NV.Common Require Import Base.
Open Scope N_scope.

(* tensor_chain/src/raft.rs handle_append_entries, inside `if log_ok { ... }` *)
Definition gen_follower_ack (prev_i lastnew len : N) : N := %s.
Definition gen_follower_commit (lc commit prev_i lastnew len : N) : N := %s.
(* handle_append_entries_response returns early when aer.term < current_term *)
Definition gen_stale_ack_ignored : bool := %s.
(* tensor_chain/src/lib.rs quorum_size(total_nodes) *)
Definition gen_quorum (total : N) : N := %s.
(* handle_request_vote: log_ok (gok = outcome of the geometric tie-break, true when it is not consulted) *)
Definition gen_vote_log_ok (lli llt mli mlt : N) (gok : bool) : bool := %s.
(* handle_append_entries: the local entry at prev_log_index (term xt) against prev_log_term (pt) *)
Definition gen_prev_ok (xt pt : N) : bool := %s.
(* try_advance_commit_index: index into the ascending list of match indices (own log length included) *)
Definition gen_commit_pick (len qn : N) : N := %s.
(* try_advance_commit_index: term guard on the entry at the new commit index *)
Definition gen_commit_term_ok (et cur : N) : bool := %s.
(* get_entries_for_follower: entries are sent only when the prev entry is still in the log (or next_index <= 1) *)
Definition gen_entries_need_prev : bool := %s.
(* append_leader_entries: an entry beyond the end is pushed only if it is the direct successor of the log *)
Definition gen_gap_refused : bool := %s.
(* finalize_to(height): accepted heights (c = commit_index, len = last log index) *)
Definition gen_finalize_ok (h c len : N) : bool := %s.
""" % (ack, com, stale, quorum, vote, prev, pick, cterm, need_prev, gap, fin_ok)
    return text, items
