"""C02: facts about the durable-store code that the model's configuration follows.
  gen_tail_repair        : TensorWal::open cuts a torn tail before appending (fix for F-WAL-torn)
  gen_ghost_fixed        : SlabRouter::delete drops the entity-index entry for every key class
  gen_replay_index_fixed : apply_wal_entry(MetadataSet) re-creates the index entry of emb: keys
  gen_log_apply_order    : put_durable logs EmbeddingSet before MetadataSet, then applies
  gen_ckpt_order         : checkpoint = save snapshot, append marker, truncate
"""
import os
import re
import sys

sys.path.insert(0, os.path.dirname(os.path.abspath(__file__)))
from rs2v import HEADER, find_fn, read, strip_comments  # noqa: E402


def _b(x):
    return "true" if x else "false"



def scan_cap(src, fn_name="complete_prefix_len"):
    """does the tail-repair scan refuse record lengths the writer can produce?  Returns the Gallina
    term of an `option N`: None = every u32 length is followed; Some c = lengths above c are treated
    as a torn tail (Some 0 = a cap is there but its value could not be read)."""
    _, body = find_fn(src, fn_name)
    caps = []
    for m in re.finditer(r"\blen\s*(>=|>)\s*([A-Za-z_][A-Za-z0-9_:]*|[0-9][0-9_]*)", body):
        rhs = m.group(2)
        if rhs in ("file_len",):
            continue
        val = None
        if rhs[0].isdigit():
            val = int(rhs.replace("_", ""))
        else:
            name = rhs.split("::")[-1]
            cm = re.search(r"const\s+%s\s*:\s*\w+\s*=\s*([^;]+);" % re.escape(name), src)
            if cm:
                try:
                    val = int(eval(cm.group(1).replace("_", ""), {"__builtins__": {}}, {}))
                except Exception:
                    val = None
        caps.append(0 if val is None else val)
    # a comparison of u64::from(len) / len as u64 against something other than the file length
    for m in re.finditer(r"(u64::from\(len\)|len\s+as\s+u64)\s*(>=|>)\s*([A-Za-z_][A-Za-z0-9_:]*)", body):
        if m.group(3) != "file_len":
            caps.append(0)
    return "None" if not caps else "(Some %d)" % min(caps)


def generate(repo):
    items = {}
    tail_repair = ghost = replay_index = False
    put_order_ok = ckpt_order_ok = True
    meta_first = False
    slab_mirror = False
    try:
        wal = strip_comments(read(repo, "tensor_store/src/wal.rs"))
        _, body = find_fn(wal, "open", after=r"impl\s+TensorWal\b")
        # the repair: the open path shortens the file (set_len) to a length computed by a scan
        tail_repair = bool(re.search(r"set_len\s*\(", body)) and bool(re.search(r"fn\s+complete_prefix_len\b", wal))
        items["TensorWal::open tail repair"] = "translated"
    except Exception as ex:
        items["TensorWal::open tail repair"] = "miss:%s" % ex
    try:
        sr = strip_comments(read(repo, "tensor_store/src/slab_router.rs"))
        _, body = find_fn(sr, "delete", after=r"impl\s+SlabRouter\b")
        # last (catch-all) arm of the match on the key class
        m = re.search(r"_\s*=>\s*\{(.*?)\}", body, re.S)
        ghost = bool(m and re.search(r"self\.index\.remove\s*\(\s*key\s*\)", m.group(1)))
        items["SlabRouter::delete index removal"] = "translated"
    except Exception as ex:
        items["SlabRouter::delete index removal"] = "miss:%s" % ex
    try:
        _, body = find_fn(sr, "apply_wal_entry", after=r"impl\s+SlabRouter\b")
        m = re.search(r"WalEntry::MetadataSet\s*\{[^}]*\}\s*=>\s*\{(.*?)\n\s*\},\s*\n\s*WalEntry::MetadataDelete", body, re.S)
        arm = m.group(1) if m else ""
        replay_index = bool(re.search(r"classify_key\s*\(\s*key\s*\)\s*==\s*KeyClass::Embedding", arm))
        items["apply_wal_entry(MetadataSet) index"] = "translated"
    except Exception as ex:
        items["apply_wal_entry(MetadataSet) index"] = "miss:%s" % ex
    try:
        _, body = find_fn(sr, "put_durable", after=r"impl\s+SlabRouter\b")
        i1 = body.find("WalEntry::EmbeddingSet")
        i2 = body.find("WalEntry::MetadataSet")
        i3 = body.rfind("self.put(key, value)")
        put_order_ok = 0 <= i1 < i3 and 0 <= i2 < i3
        meta_first = 0 <= i2 < i1
        items["put_durable step order"] = "translated"
    except Exception as ex:
        items["put_durable step order"] = "miss:%s" % ex
    try:
        _, body = find_fn(sr, "put", after=r"impl\s+SlabRouter\b")
        m = re.search(r"KeyClass::Embedding\s*=>\s*\{(.*?)\n\s*\},\s*\n\s*KeyClass::Graph", body, re.S)
        arm = m.group(1) if m else ""
        if not m:
            raise ValueError("Embedding arm of put not found")
        n_del = len(re.findall(r"self\.embeddings\.delete\s*\(\s*entity_id\s*\)", arm))
        _, rbody = find_fn(sr, "apply_wal_entry", after=r"impl\s+SlabRouter\b")
        r_del = len(re.findall(r"self\.embeddings\.delete\s*\(\s*entity_id\s*\)", rbody.split("WalEntry::MetadataDelete")[0]))
        slab_mirror = n_del >= 2 and r_del >= 2
        items["embedding slab mirrors the written value"] = "translated"
    except Exception as ex:
        items["embedding slab mirrors the written value"] = "miss:%s" % ex
    try:
        _, body = find_fn(sr, "checkpoint", after=r"impl\s+SlabRouter\b")
        i1 = body.find("save_to_file")
        i2 = body.find("wal.append")
        i3 = body.find("wal.truncate")
        ckpt_order_ok = 0 <= i1 < i2 < i3
        items["checkpoint step order"] = "translated"
    except Exception as ex:
        items["checkpoint step order"] = "miss:%s" % ex
    cap = "None"
    try:
        cap = scan_cap(strip_comments(read(repo, "tensor_store/src/wal.rs")))
        items["TensorWal tail-repair scan follows every record length"] = "translated"
    except Exception as ex:
        items["TensorWal tail-repair scan follows every record length"] = "miss:%s" % ex
    text = HEADER + (
        "From NV.Common Require Import Base.\n\n"
        "(* tensor_store/src/wal.rs TensorWal::open *)\n"
        "Definition gen_tail_repair : bool := %s.\n"
        "(* tensor_store/src/slab_router.rs SlabRouter::delete, catch-all arm *)\n"
        "Definition gen_ghost_fixed : bool := %s.\n"
        "(* SlabRouter::apply_wal_entry, MetadataSet arm *)\n"
        "Definition gen_replay_index_fixed : bool := %s.\n"
        "(* put_durable: both records are logged before the in-memory put *)\n"
        "Definition gen_put_order_ok : bool := %s.\n"
        "(* put_durable: MetadataSet is logged before EmbeddingSet *)\n"
        "Definition gen_put_meta_first : bool := %s.\n"
        "(* put / apply_wal_entry(MetadataSet) of an emb: key without usable embedding drop the old vector *)\n"
        "Definition gen_slab_mirror : bool := %s.\n"
        "(* checkpoint: save_to_file, then wal.append(marker), then wal.truncate *)\n"
        "Definition gen_ckpt_order_ok : bool := %s.\n"
        % (_b(tail_repair), _b(ghost), _b(replay_index), _b(put_order_ok), _b(meta_first), _b(slab_mirror), _b(ckpt_order_ok))
    )
    text += ("(* TensorWal::complete_prefix_len: a record length above this bound is treated as a torn tail (None = no bound) *)\n"
             "Definition gen_scan_cap : option N := %s.\n" % cap)
    return text, items
