"""C03: structural facts of distributed_tx.rs the 2PC model encodes, regenerated on every run
   gen_commit_needs_prepared   commit() returns Err unless tx.phase == TxPhase::Prepared
   gen_vote_needs_preparing    record_vote() rejects unless tx.phase == TxPhase::Preparing, and rejects duplicates
   gen_prepare_writes_store    TxParticipant::prepare contains a store write
   gen_abort_applies_undo      TxParticipant::abort re-applies the undo log
   gen_timeouts_spare_committing  cleanup_timeouts filters on is_timed_out() && phase != Committing (every other phase)
   gen_participant_remembers   TxParticipant::prepare refuses a tx in `decided` before locking; commit and abort insert into it
   gen_abort_refuses_committing   coordinator abort() returns Err for a Committing transaction before anything is logged
   gen_recover_shape           coordinator recover(): nothing assigns tx.phase before the `match tx.phase`; the Committing and
                               Aborting arms do not assign tx.phase; the Prepared arm assigns Committing only under tx.all_yes()
   gen_sweeps_keep_decided     TxParticipant::cleanup_stale / recover never touch `decided`
   gen_abort_always_remembers  TxParticipant::abort inserts into `decided` before (outside) the `if let Some(tx) = tx` test
   gen_apply_whole_batch       TxParticipant::apply_operations never leaves its loop early (no break / continue-less return Ok)"""
import os
import re
import sys

sys.path.insert(0, os.path.dirname(os.path.abspath(__file__)))
from rs2v import HEADER, find_fn, read, strip_comments  # noqa: E402


def generate(repo):
    items = {}
    vals = {"gen_commit_needs_prepared": True, "gen_vote_needs_preparing": True, "gen_prepare_writes_store": False,
            "gen_abort_applies_undo": True, "gen_timeouts_spare_committing": True, "gen_participant_remembers": True,
            "gen_abort_refuses_committing": False, "gen_recover_shape": False, "gen_sweeps_keep_decided": False,
            "gen_abort_always_remembers": False, "gen_apply_whole_batch": False}
    try:
        src = strip_comments(read(repo, "tensor_chain/src/distributed_tx.rs"))
    except Exception as ex:  # noqa: BLE001
        src = None
        items["*"] = "miss:%s" % ex
    if src is not None:
        def item(name, fn):
            try:
                vals[name] = fn()
                items[name] = "translated"
            except Exception as ex:  # noqa: BLE001
                items[name] = "miss:%s" % ex

        def commit_gate():
            _, body = find_fn(src, "commit", after=r"impl\s+DistributedTxCoordinator\b")
            m = re.search(r"if\s+tx\s*\.\s*phase\s*!=\s*TxPhase::Prepared\s*\{(.*?)\}", body, re.S)
            gate = bool(m and "return Err" in m.group(1))
            # the gate must come before the decision is logged / the tx removed
            return gate and body.index(m.group(0)) < body.index("pending.remove")

        def vote_gate():
            _, body = find_fn(src, "record_vote", after=r"impl\s+DistributedTxCoordinator\b")
            a = re.search(r"if\s+tx\s*\.\s*phase\s*!=\s*TxPhase::Preparing\s*\{\s*return\s+Err", body)
            b = re.search(r"if\s+tx\s*\.\s*votes\s*\.\s*contains_key\s*\(\s*&shard\s*\)\s*\{\s*return\s+Err", body)
            c = body.find("tx.record_vote(")
            return bool(a and b and c > 0 and a.start() < c and b.start() < c)

        def prepare_writes():
            _, body = find_fn(src, "prepare", after=r"impl\s+TxParticipant\b")
            return bool(re.search(r"self\s*\.\s*store\s*\.\s*(put|delete)\s*\(|apply_operations\s*\(|\.apply\s*\(", body))

        def abort_undo():
            _, body = find_fn(src, "abort", after=r"impl\s+TxParticipant\b")
            return bool(re.search(r"undo_log\s*\.\s*iter\s*\(\s*\)\s*\.\s*rev\s*\(\s*\)", body) and re.search(r"entry\s*\.\s*apply\s*\(", body))

        def timeouts_any():
            _, body = find_fn(src, "cleanup_timeouts", after=r"impl\s+DistributedTxCoordinator\b")
            m = re.search(r"\.filter\s*\(\s*\|[^|]*\|\s*(.*?)\)\s*\.\s*map\s*\(", body, re.S)
            return bool(m and re.sub(r"\s+", "", m.group(1)) == "tx.is_timed_out()&&tx.phase!=TxPhase::Committing")

        def abort_refuses():
            _, body = find_fn(src, "abort", after=r"impl\s+DistributedTxCoordinator\b")
            m = re.search(r"if\s+from_phase\s*==\s*TxPhase::Committing\s*\{(.*?)\n\s*\}", body, re.S)
            d = re.search(r"let\s+from_phase\s*=\s*tx\s*\.\s*phase\s*;", body)
            return bool(m and d and "return Err" in m.group(1) and d.start() < m.start() < body.index("log_wal_entry"))

        def recover_shape():
            _, body = find_fn(src, "recover", after=r"impl\s+DistributedTxCoordinator\b")
            loop = re.search(r"for\s*\(\s*tx_id\s*,\s*tx\s*\)\s*in\s+pending\s*\.\s*iter_mut\s*\(\s*\)", body)
            mt = re.search(r"match\s+tx\s*\.\s*phase\s*\{", body)
            if not (loop and mt and loop.start() < mt.start()):
                raise KeyError("recover: loop / match not found")
            ok = not re.search(r"tx\s*\.\s*phase\s*=[^=]", body[loop.end():mt.start()])
            arms = body[mt.end():]

            def arm(name):
                m = re.search(r"TxPhase::%s\s*=>\s*\{" % name, arms)
                if not m:
                    raise KeyError("recover: arm %s not found" % name)
                # body of the arm up to its matching brace
                depth, i = 1, m.end()
                while depth and i < len(arms):
                    depth += {"{": 1, "}": -1}.get(arms[i], 0)
                    i += 1
                return arms[m.end():i - 1]

            for nm in ("Committing", "Aborting"):
                ok = ok and not re.search(r"tx\s*\.\s*phase\s*=[^=]", arm(nm))
            prep = arm("Prepared")
            cm = re.search(r"tx\s*\.\s*phase\s*=\s*TxPhase::Committing", prep)
            g = re.search(r"else\s+if\s+tx\s*\.\s*all_yes\s*\(\s*\)\s*\{", prep)
            ok = ok and bool(cm and g and g.end() <= cm.start() and "}" not in prep[g.end():cm.start()])
            ok = ok and len(re.findall(r"tx\s*\.\s*phase\s*=\s*TxPhase::Committing", body)) == 1
            return ok

        def sweeps_keep():
            ok = True
            for fn in ("cleanup_stale", "recover"):
                _, b = find_fn(src, fn, after=r"impl\s+TxParticipant\b")
                ok = ok and "decided" not in b
            return ok

        def remembers():
            _, pb = find_fn(src, "prepare", after=r"impl\s+TxParticipant\b")
            g = re.search(r"self\s*\.\s*decided\s*\.\s*read\s*\(\s*\)\s*\.\s*contains\s*\(\s*&request\s*\.\s*tx_id\s*\)", pb)
            lk = pb.find("try_lock(")
            ok = bool(g and lk > 0 and g.start() < lk and "return PrepareVote::No" in pb[g.start():lk])
            for fn in ("commit", "abort"):
                _, b = find_fn(src, fn, after=r"impl\s+TxParticipant\b")
                ok = ok and bool(re.search(r"self\s*\.\s*decided\s*\.\s*write\s*\(\s*\)\s*\.\s*insert\s*\(\s*tx_id\s*\)", b))
            return ok

        item("gen_participant_remembers", remembers)
        item("gen_commit_needs_prepared", commit_gate)
        item("gen_vote_needs_preparing", vote_gate)
        item("gen_prepare_writes_store", prepare_writes)
        item("gen_abort_applies_undo", abort_undo)
        item("gen_timeouts_spare_committing", timeouts_any)
        item("gen_abort_refuses_committing", abort_refuses)
        item("gen_recover_shape", recover_shape)
        def abort_always():
            _, b = find_fn(src, "abort", after=r"impl\s+TxParticipant\b")
            ins = re.search(r"self\s*\.\s*decided\s*\.\s*write\s*\(\s*\)\s*\.\s*insert\s*\(\s*tx_id\s*\)\s*;", b)
            test = re.search(r"if\s+let\s+Some\s*\(\s*tx\s*\)\s*=\s*tx\b", b)
            if not (ins and test and ins.start() < test.start()):
                return False
            head = b[:ins.start()]
            return head.count("{") == head.count("}")      # not nested in any block

        def apply_whole():
            _, b = find_fn(src, "apply_operations", after=r"impl\s+TxParticipant\b")
            return not re.search(r"\bbreak\b|return\s+Ok\b", b) and bool(re.search(r"for\s+\w+\s+in\s+operations", b))

        item("gen_sweeps_keep_decided", sweeps_keep)
        item("gen_abort_always_remembers", abort_always)
        item("gen_apply_whole_batch", apply_whole)
    text = HEADER + "From NV.Common Require Import Base.\n\n" + "".join(
        "Definition %s : bool := %s.\n" % (k, "true" if v else "false") for k, v in vals.items())
    return text, items
