"""C03: structural facts of distributed_tx.rs the 2PC model encodes, regenerated on every run
   gen_commit_needs_prepared   commit() returns Err unless tx.phase == TxPhase::Prepared
   gen_vote_needs_preparing    record_vote() rejects unless tx.phase == TxPhase::Preparing, and rejects duplicates
   gen_prepare_writes_store    TxParticipant::prepare contains a store write
   gen_abort_applies_undo      TxParticipant::abort re-applies the undo log
   gen_timeouts_any_phase      cleanup_timeouts filters on is_timed_out() only (any phase)
   gen_participant_remembers   TxParticipant::prepare refuses a tx in `decided` before locking; commit and abort insert into it"""
import os
import re
import sys

sys.path.insert(0, os.path.dirname(os.path.abspath(__file__)))
from rs2v import HEADER, find_fn, read, strip_comments  # noqa: E402


def generate(repo):
    items = {}
    vals = {"gen_commit_needs_prepared": True, "gen_vote_needs_preparing": True, "gen_prepare_writes_store": False,
            "gen_abort_applies_undo": True, "gen_timeouts_any_phase": True, "gen_participant_remembers": True}
    try:
        src = strip_comments(read(repo, "tensor_chain/src/distributed_tx.rs"))
    except Exception as ex:  # noqa: BLE001
        src = None
        items["*"] = "miss:%s" % ex
    if src is not None:
        def item(name, fn):
            try:
                vals[name] = fn()
                items[name] = "translated"
            except Exception as ex:  # noqa: BLE001
                items[name] = "miss:%s" % ex

        def commit_gate():
            _, body = find_fn(src, "commit", after=r"impl\s+DistributedTxCoordinator\b")
            m = re.search(r"if\s+tx\s*\.\s*phase\s*!=\s*TxPhase::Prepared\s*\{(.*?)\}", body, re.S)
            gate = bool(m and "return Err" in m.group(1))
            # the gate must come before the decision is logged / the tx removed
            return gate and body.index(m.group(0)) < body.index("pending.remove")

        def vote_gate():
            _, body = find_fn(src, "record_vote", after=r"impl\s+DistributedTxCoordinator\b")
            a = re.search(r"if\s+tx\s*\.\s*phase\s*!=\s*TxPhase::Preparing\s*\{\s*return\s+Err", body)
            b = re.search(r"if\s+tx\s*\.\s*votes\s*\.\s*contains_key\s*\(\s*&shard\s*\)\s*\{\s*return\s+Err", body)
            c = body.find("tx.record_vote(")
            return bool(a and b and c > 0 and a.start() < c and b.start() < c)

        def prepare_writes():
            _, body = find_fn(src, "prepare", after=r"impl\s+TxParticipant\b")
            return bool(re.search(r"self\s*\.\s*store\s*\.\s*(put|delete)\s*\(|apply_operations\s*\(|\.apply\s*\(", body))

        def abort_undo():
            _, body = find_fn(src, "abort", after=r"impl\s+TxParticipant\b")
            return bool(re.search(r"undo_log\s*\.\s*iter\s*\(\s*\)\s*\.\s*rev\s*\(\s*\)", body) and re.search(r"entry\s*\.\s*apply\s*\(", body))

        def timeouts_any():
            _, body = find_fn(src, "cleanup_timeouts", after=r"impl\s+DistributedTxCoordinator\b")
            m = re.search(r"\.filter\s*\(\s*\|[^|]*\|\s*([^)]*\))\s*\)", body)
            return bool(m and re.sub(r"\s+", "", m.group(1)) == "tx.is_timed_out()")

        def remembers():
            _, pb = find_fn(src, "prepare", after=r"impl\s+TxParticipant\b")
            g = re.search(r"self\s*\.\s*decided\s*\.\s*read\s*\(\s*\)\s*\.\s*contains\s*\(\s*&request\s*\.\s*tx_id\s*\)", pb)
            lk = pb.find("try_lock(")
            ok = bool(g and lk > 0 and g.start() < lk and "return PrepareVote::No" in pb[g.start():lk])
            for fn in ("commit", "abort"):
                _, b = find_fn(src, fn, after=r"impl\s+TxParticipant\b")
                ok = ok and bool(re.search(r"self\s*\.\s*decided\s*\.\s*write\s*\(\s*\)\s*\.\s*insert\s*\(\s*tx_id\s*\)", b))
            return ok

        item("gen_participant_remembers", remembers)
        item("gen_commit_needs_prepared", commit_gate)
        item("gen_vote_needs_preparing", vote_gate)
        item("gen_prepare_writes_store", prepare_writes)
        item("gen_abort_applies_undo", abort_undo)
        item("gen_timeouts_any_phase", timeouts_any)
    text = HEADER + "From NV.Common Require Import Base.\n\n" + "".join(
        "Definition %s : bool := %s.\n" % (k, "true" if v else "false") for k, v in vals.items())
    return text, items
