"""C04: shape facts of relational_engine/src/{lib,simd}.rs that the model's parameters and the
per-run obligations consume (recognised shapes only; anything else is a miss and the tie for that
item rests on the correspondence check)."""
import os
import re
import sys

sys.path.insert(0, os.path.dirname(os.path.abspath(__file__)))
from rs2v import HEADER, find_fn, read, strip_comments  # noqa: E402


def norm_ws(s):
    return re.sub(r"\s+", " ", s)


def float_key_normalises_zero(lib):
    _sig, body = find_fn(lib, "hash_key", after=r"impl\s+Value\b")
    b = norm_ws(body)
    m = re.search(r"Self::Float\(v\) => (.*?)Self::String", b)
    if not m:
        raise KeyError("Float arm of hash_key not found")
    arm = m.group(1)
    if re.fullmatch(r'format!\("f:\{\}", v\.to_bits\(\)\), ', arm):
        return False
    if re.search(r"if \*v == 0\.0 \{ 0\.0 \} else \{ \*v \}", arm) and "to_bits()" in arm:
        return True
    raise KeyError("unrecognised Float arm: %s" % arm[:80])


def index_dispatch(lib):
    """try_index_lookup: Eq -> index_lookup, Lt/Le/Gt/Ge -> btree_range_lookup with the same RangeOp,
    And -> first side that has an index, everything else None"""
    _sig, body = find_fn(lib, "try_index_lookup")
    b = norm_ws(body)
    ok = "Condition::Eq(column, value) => self.index_lookup(table, column, value)" in b
    for op in ("Lt", "Le", "Gt", "Ge"):
        ok = ok and re.search(r"Condition::%s\(column, value\) => \{ Ok\(self\.btree_range_lookup\(table, column, value, RangeOp::%s\)\) \}" % (op, op), b) is not None
    ok = ok and re.search(r"Condition::And\(a, b\) => \{ let a_result = self\.try_index_lookup\(table, a\)\?; if a_result\.is_some\(\) \{ return Ok\(a_result\); \} self\.try_index_lookup\(table, b\) \}", b) is not None
    ok = ok and "_ => Ok(None)" in b
    return ok


def recheck_present(lib):
    """select_with_options / select_with_limit / count: candidates are re-checked with evaluate_with_depth"""
    out = True
    for fn in ("select_with_options", "select_with_limit", "count"):
        _sig, body = find_fn(lib, fn, after=r"impl\s+RelationalEngine\b")
        b = norm_ws(body)
        i = b.find("try_index_lookup")
        j = b.find("scan_all")
        if i < 0 or j < 0 or "evaluate_with_depth" not in b[i:j]:
            out = False
    return out


def index_path_returns_only_rechecked(lib):
    """the index-path segment (between try_index_lookup and the scan) of select_with_options,
    select_with_limit, count, count_column: the ONLY success return is the re-checked result
    (rows / result / count); any other `return Ok(` is a shortcut past the re-check"""
    want = {"select_with_options": ["rows"], "select_with_limit": ["result"], "count": ["count"],
            "count_column": ["count"]}
    for fn, exp in want.items():
        _sig, body = find_fn(lib, fn, after=r"impl\s+RelationalEngine\b")
        b = norm_ws(body)
        i = b.find("try_index_lookup")
        j = b.find("scan_all", i)
        if i < 0 or j < 0:
            raise KeyError("%s: index segment not found" % fn)
        seg = b[i:j]
        rets = re.findall(r"return Ok\(([^()]*(?:\([^()]*\))?[^()]*)\)", seg)
        if [r.strip() for r in rets] != exp:
            return False
        if "evaluate_with_depth" not in seg:
            return False
    return True


def ordered_key_order(lib):
    """impl Ord for OrderedFloat: NaN = NaN, NaN least, otherwise partial_cmp (so -0.0 and +0.0
    are ONE key, as in Condition::evaluate).  total_cmp / to_bits comparisons split the zeros."""
    m = re.search(r"impl\s+Ord\s+for\s+OrderedFloat\s*\{", lib)
    if not m:
        raise KeyError("impl Ord for OrderedFloat not found")
    _sig, body = find_fn(lib[m.end():], "cmp")
    b = norm_ws(body)
    shape = (r"match \(self\.0\.is_nan\(\), other\.0\.is_nan\(\)\) \{ "
             r"\(true, true\) => std::cmp::Ordering::Equal, "
             r"\(true, false\) => std::cmp::Ordering::Less, "
             r"\(false, true\) => std::cmp::Ordering::Greater, "
             r"\(false, false\) => (.*?),? \}$")
    mm = re.match(shape, b.strip())
    if not mm:
        raise KeyError("OrderedFloat::cmp shape not recognised")
    arm = mm.group(1).strip()
    if re.fullmatch(r"self \.0 \.partial_cmp\(&other\.0\) \.unwrap_or\(std::cmp::Ordering::Equal\)", arm) or \
       re.fullmatch(r"self\s*\.0\s*\.partial_cmp\(&other\.0\)\s*\.unwrap_or\(std::cmp::Ordering::Equal\)", arm):
        return True
    if "total_cmp" in arm or "to_bits" in arm:
        return False
    raise KeyError("non-NaN arm not recognised: %s" % arm[:60])


def limit_after_recheck(lib):
    _sig, body = find_fn(lib, "select_with_limit", after=r"impl\s+RelationalEngine\b")
    b = norm_ws(body)
    i = b.find("try_index_lookup")
    j = b.find("scan_all")
    seg = b[i:j]
    if "take(target_count)" in seg:
        return False
    return "skip(offset).take(limit)" in seg and seg.find("sort_by_key") < seg.find("skip(offset).take(limit)")


def vector_kernels(lib):
    """apply_slab_vectorized_filter: (supported (op,type) list, all comparison kernels clear NULL cells,
    Ne keeps NULL cells, every kernel applies the alive mask, True is not vectorised)"""
    _sig, body = find_fn(lib, "apply_slab_vectorized_filter")
    arms = re.split(r"\n\s*Condition::", body)
    sup = []
    masked = ne_keeps = alive = True
    true_vec = None
    for a in arms[1:]:
        m = re.match(r"(Eq|Ne|Lt|Le|Gt|Ge)\(col, Value::(Int|Float)\(val\)\) =>", a)
        if m:
            sup.append((m.group(1), m.group(2)))
            kern = re.search(r"simd::filter_(\w+)_(i64|f64)\(&values, \*val, &mut bitmap\);", a)
            if not kern or kern.group(1) != m.group(1).lower():
                raise KeyError("kernel of %s/%s not recognised" % m.groups())
            rest = a[kern.end():]
            if m.group(1) == "Ne":
                ne_keeps = ne_keeps and "Self::include_nulls(&mut bitmap, &null_words);" in rest
            else:
                masked = masked and "Self::apply_null_mask(&mut bitmap, &null_words);" in rest
            alive = alive and "Self::apply_alive_mask(&mut bitmap, &alive_words);" in rest
            continue
        if a.startswith("True"):
            true_vec = not re.match(r"True => None,", norm_ws(a))
    want = [(o, "Int") for o in ("Eq", "Ne", "Lt", "Le", "Gt", "Ge")] + [("Lt", "Float"), ("Gt", "Float"), ("Eq", "Float")]
    if sorted(sup) != sorted(want):
        raise KeyError("kernel set changed: %s" % sup)
    # the helpers do what their names say (absent helpers = kernels are not masked)
    try:
        _s, nb = find_fn(lib, "apply_null_mask")
        _s, ib = find_fn(lib, "include_nulls")
    except KeyError:
        return False, False, alive, (true_vec is False)
    if "*word &= !nulls;" not in nb:
        masked = False
    if "*word |= nulls;" not in ib:
        ne_keeps = False
    return masked, ne_keeps, alive, (true_vec is False)


def feq_tail_exact(simd):
    _sig, body = find_fn(simd, "filter_eq_f64")
    b = norm_ws(body)
    if "abs() < f64::EPSILON" in b:
        return False
    if "if values[i] == threshold {" in b and "cmp_eq(threshold_vec)" in b:
        return True
    raise KeyError("filter_eq_f64 tail not recognised")


def insert_indexes_omitted(lib):
    ok = True
    for fn in ("tx_insert", "batch_insert"):
        _sig, body = find_fn(lib, fn, after=r"impl\s+RelationalEngine\b")
        b = norm_ws(body)
        if "else if let Some(value) = values.get(col)" in b:
            ok = False
        if "values.get(col).unwrap_or(&Value::Null)" not in b:
            ok = False
    return ok


def generate(repo):
    items, out = {}, {}

    def item(name, default, fn):
        try:
            out[name] = fn()
            items[name] = "translated"
        except Exception as ex:
            out[name] = default
            items[name] = "miss:%s" % str(ex)[:120]

    lib = strip_comments(read(repo, "relational_engine/src/lib.rs"))
    simd = strip_comments(read(repo, "relational_engine/src/simd.rs"))
    item("float_key_normalises_zero", True, lambda: float_key_normalises_zero(lib))
    item("index_dispatch", True, lambda: index_dispatch(lib))
    item("recheck_present", True, lambda: recheck_present(lib))
    item("limit_after_recheck", True, lambda: limit_after_recheck(lib))
    item("index_path_returns_only_rechecked", True, lambda: index_path_returns_only_rechecked(lib))
    item("ordered_key_identifies_zeros", True, lambda: ordered_key_order(lib))
    item("vector_kernels", (True, True, True, True), lambda: vector_kernels(lib))
    item("feq_tail_exact", True, lambda: feq_tail_exact(simd))
    item("insert_indexes_omitted_null", True, lambda: insert_indexes_omitted(lib))
    b = lambda x: "true" if x else "false"  # noqa: E731
    masked, ne_keeps, alive, true_fallback = out["vector_kernels"]
    text = HEADER + (
        "From NV.Common Require Import Base.\n\n"
        "(* relational_engine/src/lib.rs Value::hash_key: is the sign of a float zero normalised? *)\n"
        "Definition gen_float_key_normalises_zero : bool := %s.\n" % b(out["float_key_normalises_zero"])
        + "(* try_index_lookup: Eq -> hash index, Lt/Le/Gt/Ge -> ordered index with the same range op,\n"
          "   And -> first side with an index, anything else no index *)\n"
        + "Definition gen_index_dispatch_recognised : bool := %s.\n" % b(out["index_dispatch"])
        + "(* select / select_with_limit / count re-check index candidates with evaluate *)\n"
        + "Definition gen_recheck_present : bool := %s.\n" % b(out["recheck_present"])
        + "(* select_with_limit cuts the offset/limit window after re-check and sort *)\n"
        + "Definition gen_limit_after_recheck : bool := %s.\n" % b(out["limit_after_recheck"])
        + "(* the index paths of select / select_with_limit / count / count_column return nothing but the\n"
          "   re-checked result (no shortcut that trusts an index bucket) *)\n"
        + "Definition gen_index_path_returns_only_rechecked : bool := %s.\n" % b(out["index_path_returns_only_rechecked"])
        + "(* OrderedFloat::cmp: NaNs equal and least, otherwise partial_cmp: -0.0 and +0.0 are one key *)\n"
        + "Definition gen_ordered_key_identifies_zeros : bool := %s.\n" % b(out["ordered_key_identifies_zeros"])
        + "(* apply_slab_vectorized_filter: comparison kernels clear NULL cells, Ne keeps them, every\n"
          "   kernel is ANDed with the alive mask, Condition::True is left to the row path *)\n"
        + "Definition gen_vector_null_masked : bool := %s.\n" % b(masked)
        + "Definition gen_vector_ne_keeps_null : bool := %s.\n" % b(ne_keeps)
        + "Definition gen_vector_alive_masked : bool := %s.\n" % b(alive)
        + "Definition gen_vector_true_falls_back : bool := %s.\n" % b(true_fallback)
        + "(* simd::filter_eq_f64 compares its scalar tail exactly *)\n"
        + "Definition gen_feq_tail_exact : bool := %s.\n" % b(out["feq_tail_exact"])
        + "(* insert / batch_insert index an omitted column as NULL *)\n"
        + "Definition gen_insert_indexes_omitted_null : bool := %s.\n" % b(out["insert_indexes_omitted_null"])
    )
    return text, items
