"""C05: how graph_engine/src/lib.rs `remove_edge_from_list` / `add_edge_to_list` find the element.

  remove_edge_from_list: the statement that rebuilds the `_edges` pointer list
      ptrs.iter().filter(|s| **s != id_str)...   or   .retain(|s| ..!= ..)   -> every occurrence removed, any order
      binary_search / binary_search_by_key / partition_point               -> correct only on ascending lists
  -> gen_remove_from : list N -> N -> list N
  add_edge_to_list: `if !edges.contains(&edge_id) { edges.push(edge_id) }`  -> gen_add_to
"""
import os
import re
import sys

sys.path.insert(0, os.path.dirname(os.path.abspath(__file__)))
from rs2v import HEADER, find_fn, read, strip_comments  # noqa: E402

LINEAR = "filter (fun x => negb (N.eqb x e)) l"
# a search that presumes ascending order: modelled as removing only when the list IS ascending
SORTED_ONLY = "if asc l then filter (fun x => negb (N.eqb x e)) l else l"
ADD = "if existsb (N.eqb e) l then l else l ++ [e]"
ADD_ALWAYS = "l ++ [e]"


def generate(repo):
    items = {}
    rem, add = LINEAR, ADD
    try:
        src = strip_comments(read(repo, "graph_engine/src/lib.rs"))
        _sig, body = find_fn(src, "remove_edge_from_list", after=r"impl\s+GraphEngine\b")
        if re.search(r"binary_search|partition_point", body):
            rem = SORTED_ONLY
            items["remove_edge_from_list.element_search"] = "translated (order-dependent search)"
        elif re.search(r"\.filter\(\s*\|\s*(\w+)\s*\|\s*\*\*\1\s*!=\s*\w+\s*\)", body) or re.search(r"\.retain\(\s*\|\s*\w+\s*\|[^)]*!=", body):
            items["remove_edge_from_list.element_search"] = "translated"
        else:
            items["remove_edge_from_list.element_search"] = "miss:unrecognised shape"
    except Exception as ex:  # noqa: BLE001
        items["remove_edge_from_list.element_search"] = "miss:%s" % ex
    try:
        src = strip_comments(read(repo, "graph_engine/src/lib.rs"))
        _sig, body = find_fn(src, "add_edge_to_list", after=r"impl\s+GraphEngine\b")
        if re.search(r"if\s+!\s*edges\.contains\(\s*&edge_id\s*\)\s*\{\s*edges\.push\(edge_id\);\s*\}", body):
            items["add_edge_to_list.push_unless_present"] = "translated"
        elif re.search(r"edges\.push\(edge_id\)", body) and "contains" not in body:
            add = ADD_ALWAYS
            items["add_edge_to_list.push_unless_present"] = "translated (unconditional push)"
        else:
            items["add_edge_to_list.push_unless_present"] = "miss:unrecognised shape"
    except Exception as ex:  # noqa: BLE001
        items["add_edge_to_list.push_unless_present"] = "miss:%s" % ex
    # how ids are reserved: one atomic fetch_add on the counter, or a separate load and store
    atomic = {}
    for item, fn, counter in (("create_edge.id_reservation", "create_edge", "edge_counter"),
                              ("batch_create_edges.id_block_reservation", "batch_create_edges", "edge_counter"),
                              ("create_node_with_labels.id_reservation", "create_node_with_labels", "node_counter"),
                              ("batch_create_nodes.id_block_reservation", "batch_create_nodes", "node_counter")):
        atomic[item] = True
        try:
            src = strip_comments(read(repo, "graph_engine/src/lib.rs"))
            _sig, body = find_fn(src, fn, after=r"impl\s+GraphEngine\b")
            has_store = re.search(r"self\s*\.\s*%s\s*\.\s*(store|swap)\s*\(" % counter, body) is not None
            has_fetch = re.search(r"=\s*self\s*\.\s*%s\s*\.\s*fetch_add\s*\(" % counter, body) is not None
            if has_store:
                atomic[item] = False
                items[item] = "translated (counter written with store: not one atomic step)"
            elif has_fetch:
                items[item] = "translated"
            else:
                items[item] = "miss:unrecognised shape"
        except Exception as ex:  # noqa: BLE001
            items[item] = "miss:%s" % ex
    ids_atomic = "true" if all(atomic.values()) else "false"
    text = HEADER + (
        "From NV.Common Require Import Base.\nOpen Scope N_scope.\n\n"
        "Fixpoint asc (l : list N) : bool :=\n"
        "  match l with a :: ((b :: _) as r) => N.ltb a b && asc r | _ => true end.\n\n"
        "(* graph_engine/src/lib.rs remove_edge_from_list: the new `_edges` list *)\n"
        "Definition gen_remove_from (l : list N) (e : N) : list N :=\n  %s.\n\n"
        "(* add_edge_to_list: the new `_edges` list *)\n"
        "Definition gen_add_to (l : list N) (e : N) : list N :=\n  %s.\n\n"
        "(* create_edge / batch_create_edges / create_node_with_labels / batch_create_nodes reserve their ids\n"
        "   with ONE atomic fetch_add on the counter (no separate load and store) *)\n"
        "Definition gen_ids_reserved_atomically : bool := %s.\n" % (rem, add, ids_atomic)
    )
    return text, items
