"""C06: cache-invalidation table of VectorEngine's mutators, the sparse keep predicate and the
representation-choice constants -> gen/Gen_C06.v"""
import os
import re
import struct
import sys

sys.path.insert(0, os.path.dirname(os.path.abspath(__file__)))
from rs2v import HEADER, find_fn, read, strip_comments  # noqa: E402

# mutator id -> (function in vector_engine/src/lib.rs, what its cache key must be)
MUTATORS = [
    (0, "store_embedding", '"_default"'),
    (1, "delete_embedding", '"_default"'),
    (2, "store_embedding_with_metadata", '"_default"'),
    (3, "batch_delete_embeddings", '"_default"'),
    (4, "clear", '"_default"'),
    (5, "store_in_collection_with_metadata", "collection"),
    (6, "delete_from_collection", "collection"),
    (7, "delete_collection", "name"),
    (8, "batch_store_embeddings", "<every element through store_embedding>"),
]


def f32_bits(x):
    return struct.unpack("<I", struct.pack("<f", x))[0]


def generate(repo):
    items = {}
    inv = {}
    try:
        src = strip_comments(read(repo, "vector_engine/src/lib.rs"))
        m = re.search(r"impl\s+VectorEngine\s*\{", src)
        impl = src[m.end():]
    except Exception as ex:
        impl = None
        items["*"] = "miss:%s" % ex
    for mid, fn, arg in MUTATORS:
        name = "invalidates.%s" % fn
        try:
            _, body = find_fn(impl, fn)
            if fn == "batch_store_embeddings":
                # elements may only be written by calling the invalidating single store; any other writer
                # (self.store.put / another self.<fn> that is not a known read-only helper) breaks the rule
                calls = set(re.findall(r"self\s*\.\s*(\w+)\s*\(", body))
                inv[mid] = ("store_embedding" in calls) and calls <= {"store_embedding"} and not re.search(r"self\s*\.\s*store\s*\.\s*(put|delete)", body)
                items[name] = "translated"
                continue
            # the function invalidates iff a call `self.invalidate_hnsw_cache(<its collection>)` is on
            # its straight-line success path: present, and not inside a closure / only in an early return
            calls = re.findall(r"self\s*\.\s*invalidate_hnsw_cache\s*\(\s*([^)]*?)\s*\)", body)
            ok = any(c.strip() == arg or c.strip() == "&" + arg or (arg != '"_default"' and re.fullmatch(r"&?\w+", c.strip())) for c in calls)
            inv[mid] = ok
            items[name] = "translated"
        except Exception as ex:
            inv[mid] = False
            items[name] = "miss:%s" % ex

    # also: the public mutating functions of VectorEngine that write or delete embedding keys and are
    # NOT in the table above are reported (so a new mutator cannot slip past the table silently)
    extra = []
    if impl is not None:
        end = impl.find("#[cfg(test)]")
        scope = impl if end < 0 else impl[:end]
        known = {fn for _, fn, _ in MUTATORS} | {"batch_store_embeddings", "store_in_collection"}
        for fm in re.finditer(r"pub\s+fn\s+(\w+)\s*\(\s*&self", scope):
            fn = fm.group(1)
            if fn in known:
                continue
            try:
                _, body = find_fn(scope, fn)
            except Exception:
                continue
            writes = re.search(r"self\s*\.\s*store\s*\.\s*(put|delete)\s*\(", body)
            # only functions that rewrite the \"vector\" field of an embedding record matter
            if writes and re.search(r'tensor\s*\.\s*set\s*\(\s*"vector"', body) and "embedding_key" in body:
                extra.append(fn)
    items["unlisted_vector_writers"] = "translated" if not extra else "miss:unlisted mutators %s" % ",".join(extra)

    keep = "(negb (f_iszero b))"
    try:
        sv = strip_comments(read(repo, "tensor_store/src/sparse_vector.rs"))
        _, body = find_fn(sv, "try_from_dense")
        m = re.search(r"if\s+(\w+)\s*!=\s*0\.0\s*\{", body)
        if not m:
            raise KeyError("try_from_dense: keep condition is not `val != 0.0`")
        items["sparse.keep"] = "translated"
    except Exception as ex:
        items["sparse.keep"] = "miss:%s" % ex

    eps = f32_bits(1e-6)
    try:
        _, body = find_fn(impl, "should_use_sparse_with_threshold")
        m = re.search(r"\.abs\(\)\s*>\s*([0-9.eE+-]+)", body)
        eps = f32_bits(float(m.group(1)))
        if not re.search(r"zero_ratio\s*>=\s*threshold", body):
            raise KeyError("comparison is not `zero_ratio >= threshold`")
        items["sparse.eps"] = "translated"
    except Exception as ex:
        items["sparse.eps"] = "miss:%s" % ex

    num, den = 1, 2
    try:
        m = re.search(r"sparse_threshold\s*:\s*([0-9.]+)\s*,", src[src.index("impl Default for VectorEngineConfig"):])
        num, den = float(m.group(1)).as_integer_ratio()
        items["sparse.threshold"] = "translated"
    except Exception as ex:
        items["sparse.threshold"] = "miss:%s" % ex

    guard = False
    try:
        ok = []
        for fn in ("search_similar", "search_in_collection"):
            _, body = find_fn(impl, fn)
            i = body.index("hnsw_cache")
            seg = body[i:]
            m = re.search(r"let\s+(\w+)\s*=\s*[^;]*\.len\(\)\s*==\s*query\.len\(\)[^;]*;", seg)
            c = re.search(r"if\s+([^{]*mapping\.is_empty\(\)[^{]*)\{", seg)
            ok.append(bool(m and c and re.search(r"&&\s*%s\b" % m.group(1), c.group(1))))
        guard = all(ok)
        items["cached_dim_guard"] = "translated"
    except Exception as ex:
        items["cached_dim_guard"] = "miss:%s" % ex

    fallback = False
    try:
        ok = []
        _, body = find_fn(impl, "search_with_post_filter")
        ok.append(bool(re.search(r"if\s+filtered\.len\(\)\s*<\s*top_k\s*&&\s*saturated\s*\{\s*return\s+Ok\(self\.search_with_pre_filter\(", body))
                  and bool(re.search(r"let\s+saturated\s*=\s*candidates\.len\(\)\s*>=\s*oversample_k\s*;", body)))
        _, body = find_fn(impl, "search_filtered_in_collection")
        ok.append(bool(re.search(r"if\s+filtered\.len\(\)\s*<\s*top_k\s*&&\s*saturated\s*\{\s*pre_filter\(\)", body))
                  and bool(re.search(r"let\s+saturated\s*=\s*candidates\.len\(\)\s*>=\s*oversample_k\s*;", body)))
        fallback = all(ok)
        items["post_filter_fallback"] = "translated"
    except Exception as ex:
        items["post_filter_fallback"] = "miss:%s" % ex

    # degenerate-vector guards: the exact scan and the index must call the SAME vectors degenerate (norm == 0.0)
    idx_guard = scan_guard = False
    try:
        hs = strip_comments(read(repo, "tensor_store/src/hnsw.rs"))
        hs_impl = hs[re.search(r"impl\s+EmbeddingStorage\b", hs).end():]
        pat = r"if\s+\w+\s*==\s*0\.0\s*\|\|\s*\w+\s*==\s*0\.0\s*\{\s*return\s+1\.0\s*;"
        oks = []
        for fn in ("cosine_distance_dense", "cosine_distance_dense_with_registry", "cosine_distance_sparse"):
            _, body = find_fn(hs_impl, fn)
            conds = re.findall(r"\bif\s+([^{]+)\{\s*return\s+1\.0", body)
            oks.append(bool(re.search(pat, body)) and len(conds) == 1)
        idx_guard = all(oks)
        items["index_zero_norm_guard"] = "translated"
    except Exception as ex:
        items["index_zero_norm_guard"] = "miss:%s" % ex
    try:
        _, body = find_fn(impl, "cosine_similarity")
        conds = re.findall(r"\bif\s+([^{]+)\{\s*return\s+0\.0", body)
        scan_guard = len(conds) == 1 and bool(re.fullmatch(r"\w+\s*==\s*0\.0\s*\|\|\s*\w+\s*==\s*0\.0\s*", conds[0]))
        items["scan_zero_norm_guard"] = "translated"
    except Exception as ex:
        items["scan_zero_norm_guard"] = "miss:%s" % ex

    # the exact scan has twin implementations (sequential / rayon); both must be the same expression
    twins = False
    try:
        oks = []
        for a, b in (("search_sequential", "search_parallel"), ("search_sequential_with_metric", "search_parallel_with_metric")):
            _, ba = find_fn(impl, a)
            _, bb = find_fn(impl, b)
            na = re.sub(r"\s+", "", ba)
            nb = re.sub(r"\s+", "", bb).replace("keys.par_iter()", "keys.iter()")
            oks.append(na == nb and na.startswith("keys.iter()"))
        twins = all(oks)
        items["scan_twins_agree"] = "translated"
    except Exception as ex:
        items["scan_twins_agree"] = "miss:%s" % ex

    arms = "\n".join("  | %d => %s" % (mid, "true" if inv.get(mid) else "false") for mid, _, _ in MUTATORS)
    names = "\n".join("   %d %s" % (mid, fn) for mid, fn, _ in MUTATORS)
    text = HEADER + (
        "From NV.Common Require Import Base.\nFrom NV.C06 Require Import Types.\nOpen Scope N_scope.\n\n"
        "(* vector_engine/src/lib.rs: does the mutator call self.invalidate_hnsw_cache(<its collection>)?\n%s *)\n"
        "Definition gen_invalidates (m : N) : bool :=\n  match m with\n%s\n  | _ => false\n  end.\n"
        "(* tensor_store/src/sparse_vector.rs try_from_dense: the values kept *)\n"
        "Definition gen_keep (b : N) : bool := %s.\n"
        "(* should_use_sparse_with_threshold: |v| > eps; VectorEngineConfig::default().sparse_threshold *)\n"
        "Definition gen_eps_bits : N := %d.\nDefinition gen_thr_num : N := %d.\nDefinition gen_thr_den : N := %d.\n"
        "(* search_similar / search_in_collection: the cached branch requires the query to have the indexed dimension *)\n"
        "Definition gen_cached_dim_guard : bool := %s.\n"
        "(* search_with_post_filter / search_filtered_in_collection: too few matches among the oversampled\n"
        "   candidates while more were cut off => exact search over the matching embeddings *)\n"
        "Definition gen_post_filter_fallback : bool := %s.\n"
        "(* is the degenerate-vector test `norm == 0.0` (and nothing else) in EmbeddingStorage::cosine_distance_{dense,\n"
        "   dense_with_registry,sparse} (index) / in VectorEngine::cosine_similarity (exact scan) *)\n"
        "Definition gen_index_zero_guard_exact : bool := %s.\nDefinition gen_scan_zero_guard_exact : bool := %s.\n"
        "(* search_sequential / search_parallel and search_sequential_with_metric / search_parallel_with_metric are the\n"
        "   same iterator chain over the keys (up to iter / par_iter), with nothing in front of it *)\n"
        "Definition gen_scan_twins_agree : bool := TWINS.\n"
        % (names, arms, keep, eps, num, den, "true" if guard else "false", "true" if fallback else "false",
           "true" if idx_guard else "false", "true" if scan_guard else "false")
    )
    text = text.replace("TWINS", "true" if twins else "false")
    return text, items
