"""C07: snapshot header layout, save protocol order, temp-path rule, embedding-slab compression
constants and the quantising format's field mapping -> coq/gen/Gen_C07.v"""
import os
import re
import struct
import sys

sys.path.insert(0, os.path.dirname(os.path.abspath(__file__)))
from rs2v import HEADER, find_const, find_fn, read, strip_comments  # noqa: E402

FIELDS = {"magic": 0, "version": 1, "flags": 2, "entry_count": 3}


def nlist(xs):
    return "[" + "; ".join(str(x) for x in xs) + "]"


def bstr(s):
    return nlist(list(s.encode("utf-8")))


def int_expr(text):
    text = re.sub(r"(?<=\d)_(?=\d)", "", text)
    text = re.sub(r"(u8|u16|u32|u64|usize|i32|i64)\b", "", text)
    if not re.fullmatch(r"[0-9a-fA-Fx+*() \t-]+", text):
        raise ValueError("not a constant integer expression: %r" % text)
    return int(eval(text, {"__builtins__": {}}))  # digits and + * ( ) only


def order_ok(body, temp_var="temp_path"):
    """File::create(&temp) < write_all < rename(&temp, path)"""
    c = body.find("File::create(&%s)" % temp_var)
    w = body.find("write_all", c if c >= 0 else 0)
    m = re.search(r"rename\(\s*&%s\s*,\s*path\s*\)" % temp_var, body)
    return c >= 0 and w > c and m is not None and m.start() > w, (m.start() if m else -1), c


STEP_PATTERNS = [
    (0, r"File::create\(\s*&temp_path\s*\)"),
    (1, r"\.write_all\("),
    (2, r"\.sync_(?:all|data)\(\)"),
    (3, r"remove_file\(\s*&?path\s*\)"),
    (4, r"rename\(\s*&temp_path\s*,\s*path\s*\)"),
    # anything else that creates, writes, copies, removes or renames a file
    (5, r"File::create\(|OpenOptions|fs::write\(|fs::copy\(|remove_file\(|fs::rename\(|fs::remove_dir|hard_link\(|set_len\("),
]


def fs_steps(body):
    """the file-system steps of a save function in source order:
    0 create temp, 1 write to temp, 2 fsync temp, 3 unlink target, 4 rename temp -> target, 5 other"""
    found = []
    taken = []
    for code, pat in STEP_PATTERNS:
        for m in re.finditer(pat, body):
            if any(m.start() < b and m.end() > a for a, b in taken):
                continue  # already recognised as a more specific step
            found.append((m.start(), code))
            taken.append((m.start(), m.end()))
    found.sort()
    steps = []
    for _, c in found:
        if c == 1 and steps and steps[-1] == 1:
            continue  # header + body (+ the two arms of `if compress`) are one growing write
        steps.append(c)
    if 0 not in steps:
        raise KeyError("no File::create(&temp_path) in save function")
    return steps


def temp_mode(body):
    m = re.search(r"let\s+temp_path\s*=\s*path\.with_extension\(\s*\"(\w+)\"\s*\)\s*;", body)
    if m:
        return 0, m.group(1)
    # append form:  let temp_path = { let mut n = path.as_os_str().to_owned(); n.push(".tmp"); PathBuf::from(n) };
    m = re.search(r"let\s+temp_path\s*=\s*\{\s*let\s+mut\s+(\w+)\s*=\s*path\.as_os_str\(\)\s*\.to_(?:owned|os_string)\(\)\s*;"
                  r"\s*\1\.push\(\s*\"\.(\w+)\"\s*\)\s*;\s*(?:std::path::)?PathBuf::from\(\s*\1\s*\)\s*\}\s*;", body)
    if m:
        return 1, m.group(2)
    raise KeyError("temp_path rule not recognised")


def generate(repo):
    items = {}
    out = {}

    def item(name, default, fn):
        try:
            out[name] = fn()
            items[name] = "translated"
        except Exception as ex:  # translator miss: documented fallback
            out[name] = default
            items[name] = "miss:%s" % ex

    snap = strip_comments(read(repo, "tensor_store/src/snapshot.rs"))
    lib = strip_comments(read(repo, "tensor_store/src/lib.rs"))
    emb = strip_comments(read(repo, "tensor_store/src/embedding_slab.rs"))
    fmt = strip_comments(read(repo, "tensor_compress/src/format.rs"))
    delta = strip_comments(read(repo, "tensor_compress/src/delta.rs"))

    item("header_size", 20, lambda: int_expr(find_const(snap, "HEADER_SIZE")))
    item("version", 3, lambda: int_expr(find_const(snap, "CURRENT_VERSION")))
    item("flag_compressed", 1, lambda: int_expr(find_const(snap, "FLAG_COMPRESSED")))

    def magic():
        m = re.fullmatch(r"\*b\"([^\"]{4})\"", find_const(snap, "V3_MAGIC"))
        if not m:
            raise KeyError("V3_MAGIC shape")
        return list(m.group(1).encode())
    item("magic", [78, 69, 85, 77], magic)

    def wlayout():
        _, body = find_fn(snap, "to_raw_bytes")
        res = []
        for a, b, f in re.findall(r"buf\[(\d+)\.\.(\d+)\]\.copy_from_slice\(&self\.(\w+)(?:\.to_le_bytes\(\))?\)", body):
            res.append((FIELDS[f], int(a), int(b)))
        if len(res) != 4 or "to_be_bytes" in body:
            raise KeyError("to_raw_bytes shape")
        return res
    item("write_layout", [(0, 0, 4), (1, 4, 8), (2, 8, 12), (3, 12, 20)], wlayout)

    def rlayout():
        _, body = find_fn(snap, "from_raw_bytes")
        res = []
        for f in ("magic", "version", "flags", "entry_count"):
            m = re.search(r"\b%s\s*:\s*(?:u32::from_le_bytes\(|u64::from_le_bytes\()?\s*\[([^\]]*(?:\][^\]]*)*?)\]\s*\)?\s*,?\s*(?=\w+\s*:|\})" % f, body)
            if not m:
                raise KeyError("from_raw_bytes field %s" % f)
            idx = [int(x) for x in re.findall(r"buf\[(\d+)\]", m.group(0))]
            if not idx:
                raise KeyError("from_raw_bytes indices %s" % f)
            res.append((FIELDS[f], idx))
        if "from_be_bytes" in body:
            raise KeyError("big endian")
        return res
    item("read_layout", [(0, [0, 1, 2, 3]), (1, [4, 5, 6, 7]), (2, [8, 9, 10, 11]), (3, list(range(12, 20)))], rlayout)

    def protocol():
        _, b1 = find_fn(snap, "save_v3_with_compression")
        _, b2 = find_fn(lib, "save_snapshot_compressed")
        m1, e1 = temp_mode(b1)
        m2, e2 = temp_mode(b2)
        if (m1, e1) != (m2, e2):
            raise KeyError("the two save functions use different temp-path rules")
        ok1, r1, c1 = order_ok(b1)
        ok2, r2, c2 = order_ok(b2)
        sync = all(re.search(r"sync_(all|data)\(\)", b[c:r]) is not None for b, c, r in ((b1, c1, r1), (b2, c2, r2)) if r > 0)
        return (m1, e1, ok1 and ok2, sync)
    item("save_protocol", (0, "tmp", True, False), protocol)

    def steps_v3():
        _, b = find_fn(snap, "save_v3_with_compression")
        return fs_steps(b)
    item("save_steps_v3", [0, 1, 4], steps_v3)

    def steps_q():
        _, b = find_fn(lib, "save_snapshot_compressed")
        return fs_steps(b)
    item("save_steps_quant", [0, 1, 4], steps_q)

    item("tt_min_dim", 256, lambda: int_expr(find_const(emb, "TT_MIN_DIMENSION")))

    def load_unbounded():
        # the loader must accept whatever the saver can write: the compressed payload goes through the
        # streaming decoder as a whole, with no size / ratio cap in front of or behind it
        _, body = find_fn(snap, "load_v3")
        if not re.search(r"zstd::decode_all\(\s*&compressed\[\.\.\]\s*\)", body):
            return False
        if re.search(r"\.take\(|bulk::decompress|with_capacity|RATIO|BUDGET|EXPANSION|LIMIT|MAX_", body):
            return False
        return True
    item("load_decompress_unbounded", True, load_unbounded)

    def stale_vec():
        router = strip_comments(read(repo, "tensor_store/src/slab_router.rs"))
        _, body = find_fn(router, "put", after=r"impl\s+SlabRouter\b")
        m = re.search(r"KeyClass::Embedding\s*=>\s*\{", body)
        if not m:
            raise KeyError("embedding arm of put")
        arm = body[m.end():body.index("KeyClass::Graph", m.end())]
        if "self.embeddings.set(entity_id, vec)" not in arm:
            raise KeyError("embeddings.set call")
        # both the dimension-mismatch branch and the no-embedding branch delete the slab entry
        return len(re.findall(r"self\.embeddings\.delete\(entity_id\)", arm)) >= 2
    item("put_drops_stale_vector", True, stale_vec)

    def sparse_rule():
        _, body = find_fn(emb, "from_dense", after=r"impl\s+CompressedEmbedding\b")
        eps = set(re.findall(r"\.abs\(\)\s*>\s*([0-9.eE+-]+)", body))
        m = re.search(r"let\s+use_sparse\s*=\s*nnz\s*\*\s*(\d+)\s*<=\s*vector\.len\(\)\s*;", body)
        if len(eps) != 1 or not m:
            raise KeyError("from_dense sparse rule shape")
        bits = struct.unpack("<I", struct.pack("<f", float(eps.pop())))[0]
        loop = re.search(r"for\s*\(i,\s*&v\)\s*in\s*vector\.iter\(\)\.enumerate\(\)\s*\{\s*if\s+([^{]+?)\s*\{", body)
        if not loop:
            raise KeyError("from_dense sparse loop shape")
        cond = loop.group(1)
        if re.fullmatch(r"v\.to_bits\(\)\s*!=\s*0", cond):
            keep_exact = True
        elif re.fullmatch(r"v\.abs\(\)\s*>\s*[0-9.eE+-]+", cond):
            keep_exact = False
        else:
            raise KeyError("from_dense keep condition %r" % cond)
        return (bits, int(m.group(1)), keep_exact)
    item("sparse_rule", (struct.unpack("<I", struct.pack("<f", 1e-6))[0], 2, True), sparse_rule)

    def bytes_map():
        _, body = find_fn(lib, "save_snapshot_compressed")
        m = re.search(r"ScalarValue::Bytes\(\s*(\w+)\s*\)\s*=>\s*\{?\s*CompressedScalar::(\w+)\(([^;]*?)\)\s*\}?\s*,", body, re.S)
        if not m:
            raise KeyError("Bytes arm not found")
        if m.group(2) == "String" and re.search(r"format!\(\s*\"bytes:\{\}\"\s*,\s*%s\.len\(\)\s*\)" % m.group(1), m.group(3)):
            return True
        if m.group(2) == "Bytes":
            return False
        raise KeyError("Bytes arm shape")
    item("bytes_as_len_string", True, bytes_map)

    def delta_op():
        _, enc = find_fn(delta, "delta_encode")
        _, dec = find_fn(delta, "delta_decode")
        if "wrapping_sub" in enc and "wrapping_add" in dec:
            return True
        if "saturating_sub" in enc:
            return False
        raise KeyError("delta operator")
    item("delta_wrapping", True, delta_op)

    def id_rule():
        _, body = find_fn(fmt, "looks_like_id_list")
        m = re.search(r"field_name\s*==\s*\"(\w+)\"\s*\|\|\s*field_name\.ends_with\(\"(\w+)\"\)", body)
        if not m:
            raise KeyError("name rule")
        return (m.group(1), m.group(2))
    item("id_name_rule", ("ids", "_ids"), id_rule)

    def id_guard():
        _, body = find_fn(fmt, "looks_like_id_list")
        ex = re.search(r"let\s+exact\s*=\s*\|v:\s*f32\|\s*v\.is_sign_positive\(\)\s*&&\s*v\.fract\(\)\s*==\s*0\.0\s*&&\s*v\s*<\s*18_446_744_073_709_551_616\.0\s*;", body)
        if ex:
            by_name = re.search(r"ends_with\(\"\w+\"\)\s*\{\s*return\s+vector\.iter\(\)\.all\(\|&v\|\s*exact\(v\)\)\s*;", body)
            first = re.search(r"if\s*!exact\(vector\[0\]\)\s*\{\s*return\s+false", body)
            chain = re.search(r"if\s+v\s*<\s*prev\s*\|\|\s*!exact\(v\)\s*\{\s*return\s+false", body)
            if by_name and first and chain:
                return True
            raise KeyError("exact guard present but not used in the recognised way")
        old = re.search(r"ends_with\(\"\w+\"\)\s*\{\s*return\s+true\s*;", body) and re.search(r"v\s*<\s*prev\s*\|\|\s*v\s*<\s*0\.0\s*\|\|\s*v\.fract\(\)\s*!=\s*0\.0", body)
        if old:
            return False
        raise KeyError("looks_like_id_list shape")
    item("id_exact_guard", True, id_guard)

    def emb_rule():
        _, body = find_fn(fmt, "compress_vector")
        m = re.search(r"key\.starts_with\(\"([^\"]+)\"\)\s*\|\|\s*field_name\s*==\s*\"(\w+)\"\s*\|\|\s*field_name\s*==\s*\"(\w+)\"", body)
        if not m:
            raise KeyError("is_embedding rule")
        return (m.group(1), m.group(2), m.group(3))
    item("embedding_rule", ("emb:", "_embedding", "vector"), emb_rule)

    tm, te, tok, tsync = out["save_protocol"]
    text = HEADER + "From NV.Common Require Import Base.\nOpen Scope N_scope.\n\n"
    text += "(* tensor_store/src/snapshot.rs *)\n"
    text += "Definition gen_header_size : N := %d.\n" % out["header_size"]
    text += "Definition gen_magic : list N := %s.\n" % nlist(out["magic"])
    text += "Definition gen_version : N := %d.\n" % out["version"]
    text += "Definition gen_flag_compressed : N := %d.\n" % out["flag_compressed"]
    text += "(* SnapshotHeader::to_raw_bytes: (field, start, end); fields 0 magic 1 version 2 flags 3 entry_count, little endian *)\n"
    text += "Definition gen_write_layout : list (N * N * N) := [%s].\n" % "; ".join("(%d, %d, %d)" % x for x in out["write_layout"])
    text += "(* SnapshotHeader::from_raw_bytes: (field, buffer indices in little-endian order) *)\n"
    text += "Definition gen_read_layout : list (N * list N) := [%s].\n" % "; ".join("(%d, %s)" % (f, nlist(ix)) for f, ix in out["read_layout"])
    text += "(* save_v3_with_compression / save_snapshot_compressed: 0 = path.with_extension(ext), 1 = file name + \".\" + ext *)\n"
    text += "Definition gen_temp_mode : N := %d.\n" % tm
    text += "Definition gen_temp_ext : list N := %s.\n" % bstr(te)
    text += "Definition gen_save_order_ok : bool := %s.   (* create temp < write < rename(temp, path) *)\n" % ("true" if tok else "false")
    text += "Definition gen_sync_before_rename : bool := %s.\n" % ("true" if tsync else "false")
    text += "(* file-system steps in source order: 0 create temp, 1 write temp, 2 fsync temp, 3 unlink target, 4 rename temp -> target, 5 other *)\n"
    text += "Definition gen_save_steps_v3 : list N := %s.\n" % nlist(out["save_steps_v3"])
    text += "Definition gen_save_steps_quant : list N := %s.\n" % nlist(out["save_steps_quant"])
    text += "(* load_v3 inflates the payload with the unbounded streaming decoder (no size or ratio cap): what save writes, load accepts *)\n"
    text += "Definition gen_load_decompress_unbounded : bool := %s.\n" % ("true" if out["load_decompress_unbounded"] else "false")
    text += "(* tensor_store/src/embedding_slab.rs CompressedEmbedding::from_dense *)\n"
    text += "Definition gen_tt_min_dim : N := %d.\n" % out["tt_min_dim"]
    text += "(* slab_router.rs put, embedding arm: a value without a slab-sized _embedding vector drops the key's old slab vector *)\n"
    text += "Definition gen_put_drops_stale_vector : bool := %s.\n" % ("true" if out["put_drops_stale_vector"] else "false")
    text += "Definition gen_sparse_eps_bits : N := %d.\n" % out["sparse_rule"][0]
    text += "Definition gen_sparse_factor : N := %d.\n" % out["sparse_rule"][1]
    text += "Definition gen_sparse_keep_exact : bool := %s.   (* the sparse form stores every component whose bits are not +0.0 *)\n" % ("true" if out["sparse_rule"][2] else "false")
    text += "(* tensor_store/src/lib.rs save_snapshot_compressed, tensor_compress/src/{format,delta}.rs *)\n"
    text += "Definition gen_bytes_as_len_string : bool := %s.\n" % ("true" if out["bytes_as_len_string"] else "false")
    text += "Definition gen_delta_wrapping : bool := %s.\n" % ("true" if out["delta_wrapping"] else "false")
    text += "Definition gen_id_exact_guard : bool := %s.   (* looks_like_id_list admits only values the f32->u64->f32 cast keeps *)\n" % ("true" if out["id_exact_guard"] else "false")
    text += "Definition gen_id_name : list N := %s.\n" % bstr(out["id_name_rule"][0])
    text += "Definition gen_id_suffix : list N := %s.\n" % bstr(out["id_name_rule"][1])
    text += "Definition gen_emb_prefix : list N := %s.\n" % bstr(out["embedding_rule"][0])
    text += "Definition gen_emb_field1 : list N := %s.\n" % bstr(out["embedding_rule"][1])
    text += "Definition gen_emb_field2 : list N := %s.\n" % bstr(out["embedding_rule"][2])
    return text, items


if __name__ == "__main__":
    t, i = generate(sys.argv[1] if len(sys.argv) > 1 else "/repo")
    print(t)
    print(i)
