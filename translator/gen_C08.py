"""C08: what TensorStore::restore_from_bytes restores, where the checkpoint artifacts live, list order and
retention rule -> coq/gen/Gen_C08.v"""
import os
import re
import sys

sys.path.insert(0, os.path.dirname(os.path.abspath(__file__)))
from rs2v import HEADER, find_fn, read, strip_comments  # noqa: E402


def generate(repo):
    items = {}
    out = {}

    def item(name, default, fn):
        try:
            out[name] = fn()
            items[name] = "translated"
        except Exception as ex:  # translator miss: documented fallback
            out[name] = default
            items[name] = "miss:%s" % ex

    lib = strip_comments(read(repo, "tensor_store/src/lib.rs"))
    qr = strip_comments(read(repo, "query_router/src/lib.rs"))
    stg = strip_comments(read(repo, "tensor_checkpoint/src/storage.rs"))
    ret = strip_comments(read(repo, "tensor_checkpoint/src/retention.rs"))
    cpl = strip_comments(read(repo, "tensor_checkpoint/src/lib.rs"))

    def restore_shape():
        _, body = find_fn(lib, "restore_from_bytes")
        if not re.search(r"self\.router\.clear\(\)", body):
            raise KeyError("no router.clear()")
        if not re.search(r"for\s+key\s+in\s+new_router\.scan\(\s*\"\"\s*\)", body) or "self.router.put(" not in body:
            raise KeyError("re-put loop over scan(\"\") not found")
        # does anything carry the specialised slabs (relational tables) over from the image?
        slabs = re.search(r"\brelations\b", body) is not None
        return slabs
    item("restore_slabs", False, restore_shape)

    def shared():
        _, body = find_fn(qr, "init_blob_with_config")
        if re.search(r"let\s+store\s*=\s*self\.vector\.store\(\)\.clone\(\)\s*;", body) and re.search(r"BlobStore::new\(\s*store\s*,", body):
            return True
        if re.search(r"BlobStore::new\(\s*TensorStore::new\(\)", body):
            return False
        raise KeyError("blob store construction shape")
    item("catalogue_shared", True, shared)

    def rollback_shape():
        _, body = find_fn(cpl, "rollback", after=r"impl\s+CheckpointManager\b")
        if "restore_from_bytes(&state.store_snapshot)" not in body:
            raise KeyError("rollback does not call restore_from_bytes on the image")
        # anything that re-instates the artifacts after the restore?
        return re.search(r"restore_from_bytes[\s\S]*(CheckpointStorage::store|\.put\()", body) is not None
    item("rollback_keeps_catalogue", False, rollback_shape)

    def list_order():
        _, body = find_fn(stg, "list", after=r"impl\s+CheckpointStorage\b")
        if re.search(r"sort_by\(\s*\|a,\s*b\|\s*b\.created_at\.cmp\(&a\.created_at\)\s*\)", body):
            return True
        raise KeyError("list sort shape")
    item("list_newest_first", True, list_order)

    def retention():
        _, body = find_fn(ret, "enforce")
        if re.search(r"checkpoints\.len\(\)\s*<=\s*self\.max_checkpoints", body) and re.search(r"checkpoints\.iter\(\)\.rev\(\)\.take\(to_remove\)", body):
            return True
        raise KeyError("retention shape")
    item("retention_drops_tail", True, retention)

    bl = lambda x: "true" if x else "false"
    text = HEADER + "From NV.Common Require Import Base.\nOpen Scope N_scope.\n\n"
    text += "(* tensor_store/src/lib.rs restore_from_bytes: clear + re-put of scan(\"\") keys; are the specialised slabs carried over? *)\n"
    text += "Definition gen_restore_slabs : bool := %s.\n" % bl(out["restore_slabs"])
    text += "(* query_router init_blob_with_config: the blob store holding the artifacts is built on the engines' own store *)\n"
    text += "Definition gen_catalogue_shared : bool := %s.\n" % bl(out["catalogue_shared"])
    text += "(* CheckpointManager::rollback re-instates the artifacts after restore_from_bytes *)\n"
    text += "Definition gen_rollback_keeps_catalogue : bool := %s.\n" % bl(out["rollback_keeps_catalogue"])
    text += "(* CheckpointStorage::list sorts by created_at descending; RetentionManager::enforce deletes from the tail *)\n"
    text += "Definition gen_list_newest_first : bool := %s.\n" % bl(out["list_newest_first"])
    text += "Definition gen_retention_drops_tail : bool := %s.\n" % bl(out["retention_drops_tail"])
    return text, items


if __name__ == "__main__":
    t, i = generate(sys.argv[1] if len(sys.argv) > 1 else "/repo")
    print(t)
    print(i)
