"""C09: structural facts of relational_engine/src/lib.rs regenerated on every run
   gen_insert_locks_row        tx_insert takes the row lock of the row it inserts
   gen_locks_before_changes    tx_update / tx_delete call try_lock on ALL matching rows before the change loop
   gen_undo_before_change      tx_update / tx_delete record the undo entry before touching index / slab
   gen_rollback_reverse        rollback applies the undo log in reverse and always releases + removes
   gen_phase_checked           every tx_* / commit / rollback starts with the is_active check
   gen_undo_btree_guarded      apply_undo_entry adds B-tree entries only for columns that have a B-tree index
   gen_undo_captures_id        tx_insert / tx_delete capture the undo's index entries for the system column `_id` too
                               (tx_delete reads the row through get_with_id, tx_insert pushes Value::Int(row_id) for "_id")
   gen_undo_bypasses_budget    apply_undo_entry re-adds B-tree entries only through btree_index_restore, which reaches the
                               shared insert code with the budget check switched off (`enforce_budget && current >= max`)
   gen_sweep_keeps_other_locks RowLockManager::cleanup_expired prunes only the swept key from the owner's key list
                               (tx_keys.retain), it never drops the owner's whole tx_locks entry"""
import os
import re
import sys

sys.path.insert(0, os.path.dirname(os.path.abspath(__file__)))
from rs2v import HEADER, find_fn, read, strip_comments  # noqa: E402


def generate(repo):
    items = {}
    vals = {"gen_insert_locks_row": False, "gen_locks_before_changes": True, "gen_undo_before_change": True,
            "gen_rollback_reverse": True, "gen_phase_checked": True, "gen_undo_btree_guarded": True,
            "gen_undo_captures_id": False, "gen_sweep_keeps_other_locks": False, "gen_undo_bypasses_budget": False}
    try:
        src = strip_comments(read(repo, "relational_engine/src/lib.rs"))
    except Exception as ex:  # noqa: BLE001
        src = None
        items["*"] = "miss:%s" % ex
    if src is not None:
        def item(name, fn):
            try:
                vals[name] = fn()
                items[name] = "translated"
            except Exception as ex:  # noqa: BLE001
                items[name] = "miss:%s" % ex

        def body(fn):
            return find_fn(src, fn, after=r"Transaction API")[1] if "Transaction API" in src else find_fn(src, fn)[1]

        def insert_locks():
            b = find_fn(src, "tx_insert")[1]
            m = re.search(r"try_lock\s*\(\s*tx_id", b)
            return bool(m and m.start() < b.index("record_undo"))

        def locks_first():
            ok = True
            for fn in ("tx_update", "tx_delete"):
                b = find_fn(src, fn)[1]
                lock = b.index(".try_lock(tx_id")
                loop = re.search(r"for\s*\(\s*slab_row_id\s*,\s*row\s*,\s*old_slab_values\s*\)\s*in", b).start()
                ok = ok and lock < loop and "record_undo" not in b[:loop] and "index_remove" not in b[:loop]
            return ok

        def undo_first():
            ok = True
            for fn in ("tx_update", "tx_delete"):
                b = find_fn(src, fn)[1]
                loop = re.search(r"for\s*\(\s*slab_row_id\s*,\s*row\s*,\s*old_slab_values\s*\)\s*in", b).start()
                lb = b[loop:]
                u = lb.index("record_undo")
                firsts = [lb.find(x) for x in ("self.index_remove(", "self.index_add(", "self.btree_index_remove(", "self.btree_index_add(", ".update_row(", ".delete(table")]
                firsts = [x for x in firsts if x >= 0]
                ok = ok and all(u < x for x in firsts)
            return ok

        def rollback_shape():
            b = find_fn(src, "rollback")[1]
            r = re.search(r"undo_log\s*\.\s*into_iter\s*\(\s*\)\s*\.\s*rev\s*\(\s*\)", b)
            rel = b.find("release_locks(tx_id)")
            rem = b.find("remove(tx_id)")
            ret = b.find("return Err(RelationalError::RollbackFailed")
            return bool(r and r.start() < rel < rem and (ret < 0 or rem < ret))

        def phase_checked():
            ok = True
            for fn in ("tx_insert", "tx_update", "tx_delete", "tx_select", "commit", "rollback"):
                b = find_fn(src, fn)[1].lstrip()
                ok = ok and bool(re.match(r"if\s*!\s*self\s*\.\s*tx_manager\s*\.\s*is_active\s*\(\s*tx_id\s*\)", b))
            return ok

        def undo_guarded():
            b = find_fn(src, "apply_undo_entry")[1]
            adds = [m.start() for m in re.finditer(r"self\s*\.\s*btree_index_add\s*\(", b)]
            if not adds:
                raise KeyError("no btree_index_add in apply_undo_entry")
            ok = True
            for a in adds:
                # the nearest preceding statement boundary of the loop body must contain the has_btree_index guard
                head = b[max(0, a - 400):a]
                ok = ok and bool(re.search(r"if\s*!\s*self\s*\.\s*has_btree_index\s*\([^)]*\)\s*\{\s*continue\s*;\s*\}", head))
            return ok

        def undo_captures_id():
            d = find_fn(src, "tx_delete")[1]
            m = re.search(r"let\s+mut\s+index_entries\b(.*?)record_undo", d, re.S)
            if not m:
                raise KeyError("tx_delete: index_entries capture not found")
            cap = m.group(1)
            ok = bool(re.search(r"row\s*\.\s*get_with_id\s*\(\s*col\s*\)", cap)) and not re.search(r"row\s*\.\s*get\s*\(", cap)
            i = find_fn(src, "tx_insert")[1]
            m = re.search(r"let\s+mut\s+index_entries\b(.*?)record_undo", i, re.S)
            if not m:
                raise KeyError("tx_insert: index_entries capture not found")
            cap = m.group(1)
            ok = ok and bool(re.search(r'col\s*==\s*"_id"', cap)) and bool(re.search(r"Value::Int\s*\(\s*row_id\b", cap))
            return ok

        def sweep_keeps():
            tsrc = strip_comments(read(repo, "relational_engine/src/transaction.rs"))
            b = find_fn(tsrc, "cleanup_expired", after=r"impl\s+RowLockManager")[1]
            return bool(re.search(r"tx_keys\s*\.\s*retain\s*\(\s*\|\s*k\s*\|\s*k\s*!=\s*key\s*\)", b)) and not re.search(r"tx_locks\s*\.\s*(remove|clear)\s*\(", b)

        def undo_bypasses():
            u = find_fn(src, "apply_undo_entry")[1]
            if re.search(r"self\s*\.\s*btree_index_add\s*\(", u) or not re.search(r"self\s*\.\s*btree_index_restore\s*\(", u):
                return False
            rs = find_fn(src, "btree_index_restore")[1]
            if not re.search(r"btree_index_add_inner\s*\([^)]*,\s*false\s*\)", rs):
                return False
            inner = find_fn(src, "btree_index_add_inner")[1]
            return bool(re.search(r"if\s+enforce_budget\s*&&\s*current\s*>=\s*self\s*\.\s*max_btree_entries", inner)) and \
                len(re.findall(r"max_btree_entries", inner)) <= 2

        item("gen_undo_bypasses_budget", undo_bypasses)
        item("gen_undo_captures_id", undo_captures_id)
        item("gen_sweep_keeps_other_locks", sweep_keeps)
        item("gen_undo_btree_guarded", undo_guarded)
        item("gen_insert_locks_row", insert_locks)
        item("gen_locks_before_changes", locks_first)
        item("gen_undo_before_change", undo_first)
        item("gen_rollback_reverse", rollback_shape)
        item("gen_phase_checked", phase_checked)
    text = HEADER + "From NV.Common Require Import Base.\n\n" + "".join(
        "Definition %s : bool := %s.\n" % (k, "true" if v else "false") for k, v in vals.items())
    return text, items
