"""C10: facts about raft_wal.rs / raft.rs that the model's configuration follows.
  gen_raft_tail_repair : RaftWal::open_with_config cuts a torn tail before appending
  gen_persist_before   : every persist_term_and_vote call site precedes the assignment of
                         current_term / voted_for in its handler (persist-before-act)
  gen_persist_sites_ok : one flag per persist_term_and_vote call site of raft.rs (all handlers, incl.
                         pre-vote response, snapshot install, async election): the logged term and
                         vote expressions are the ones the handler assigns to memory afterwards
"""
import os
import re
import sys

sys.path.insert(0, os.path.dirname(os.path.abspath(__file__)))
from rs2v import HEADER, find_fn, read, strip_comments  # noqa: E402


def _b(x):
    return "true" if x else "false"



def scan_cap(src, fn_name="complete_prefix_len"):
    """does the tail-repair scan refuse record lengths the writer can produce?  Returns the Gallina
    term of an `option N`: None = every u32 length is followed; Some c = lengths above c are treated
    as a torn tail (Some 0 = a cap is there but its value could not be read)."""
    _, body = find_fn(src, fn_name)
    caps = []
    for m in re.finditer(r"\blen\s*(>=|>)\s*([A-Za-z_][A-Za-z0-9_:]*|[0-9][0-9_]*)", body):
        rhs = m.group(2)
        if rhs in ("file_len",):
            continue
        val = None
        if rhs[0].isdigit():
            val = int(rhs.replace("_", ""))
        else:
            name = rhs.split("::")[-1]
            cm = re.search(r"const\s+%s\s*:\s*\w+\s*=\s*([^;]+);" % re.escape(name), src)
            if cm:
                try:
                    val = int(eval(cm.group(1).replace("_", ""), {"__builtins__": {}}, {}))
                except Exception:
                    val = None
        caps.append(0 if val is None else val)
    # a comparison of u64::from(len) / len as u64 against something other than the file length
    for m in re.finditer(r"(u64::from\(len\)|len\s+as\s+u64)\s*(>=|>)\s*([A-Za-z_][A-Za-z0-9_:]*)", body):
        if m.group(3) != "file_len":
            caps.append(0)
    return "None" if not caps else "(Some %d)" % min(caps)


def _call_args(body, i):
    depth, j = 1, i
    while depth > 0:
        c = body[j]
        if c == "(":
            depth += 1
        elif c == ")":
            depth -= 1
        j += 1
    return body[i:j - 1], j


def _split_top(args):
    out, depth, cur = [], 0, ""
    for c in args:
        if c in "([{":
            depth += 1
        elif c in ")]}":
            depth -= 1
        if c == "," and depth == 0:
            out.append(cur.strip())
            cur = ""
        else:
            cur += c
    if cur.strip():
        out.append(cur.strip())
    return out


def _norm_vote(e):
    e = re.sub(r"\s+", "", e)
    e = e.replace("&", "").replace(".clone()", "").replace(".as_deref()", "").replace(".to_string()", "")
    return e


def persist_sites(raft):
    """every `self.persist_term_and_vote(T, V)` call outside the test module, with the function it is
    in and what the function assigns to current_term / voted_for afterwards.  A site is consistent
    when the logged term is the term memory adopts (or memory keeps its term and the logged one is
    `persistent.current_term`) and the logged vote is the vote memory adopts."""
    cut = raft.find("mod tests")
    body = raft if cut < 0 else raft[:cut]
    calls = [m for m in re.finditer(r"self\.persist_term_and_vote\(", body)]
    sites = []
    for n, m in enumerate(calls):
        args, end = _call_args(body, m.end())
        a = _split_top(args)
        fn = re.findall(r"fn\s+([a-z_0-9]+)\s*[<(]", body[:m.start()])[-1]
        nxt_fn = re.search(r"\n    (pub(\([a-z]+\))?\s+)?(async\s+)?fn\s", body[end:])
        stop = end + nxt_fn.start() if nxt_fn else len(body)
        if n + 1 < len(calls):
            stop = min(stop, calls[n + 1].start())
        rest = body[end:stop]
        mt = re.search(r"\.current_term\s*=\s*([^=;][^;]*);", rest)
        mv = re.search(r"\.voted_for\s*=\s*([^=;][^;]*);", rest)
        t_logged = re.sub(r"\s+", "", a[0]) if a else "?"
        v_logged = _norm_vote(a[1]) if len(a) > 1 else "?"
        t_mem = re.sub(r"\s+", "", mt.group(1)) if mt else None
        v_mem = _norm_vote(mv.group(1)) if mv else None
        ok_t = (t_mem == t_logged) or (t_mem is None and t_logged == "persistent.current_term")
        ok_v = (v_mem == v_logged)
        sites.append((fn, t_logged, v_logged, t_mem, v_mem, ok_t and ok_v))
    return sites


def generate(repo):
    items = {}
    tail_repair = False
    persist_before = True
    try:
        wal = strip_comments(read(repo, "tensor_chain/src/raft_wal.rs"))
        _, body = find_fn(wal, "open_with_config", after=r"impl\s+RaftWal<FileWriter>")
        tail_repair = bool(re.search(r"set_len\s*\(", body)) and bool(re.search(r"fn\s+complete_prefix_len\b", wal))
        items["RaftWal::open tail repair"] = "translated"
    except Exception as ex:
        items["RaftWal::open tail repair"] = "miss:%s" % ex
    try:
        raft = strip_comments(read(repo, "tensor_chain/src/raft.rs"))
        for fn in ("start_election", "handle_request_vote", "handle_request_vote_response",
                   "handle_append_entries", "handle_append_entries_response"):
            _, body = find_fn(raft, fn, after=r"impl\s+RaftNode\b")
            # every assignment to current_term / voted_for must be preceded by a persist call
            for m in re.finditer(r"persistent\.(current_term|voted_for)\s*=[^=]", body):
                before = body[:m.start()]
                if "persist_term_and_vote" not in before:
                    persist_before = False
        items["persist-before-act call sites"] = "translated"
    except Exception as ex:
        items["persist-before-act call sites"] = "miss:%s" % ex
    sites = []
    try:
        sites = persist_sites(raft)
        items["persist_term_and_vote call sites (logged term / vote = adopted term / vote)"] = "translated"
    except Exception as ex:
        items["persist_term_and_vote call sites (logged term / vote = adopted term / vote)"] = "miss:%s" % ex
    snap_logged = False
    try:
        _, body = find_fn(raft, "install_snapshot_entries", after=r"impl\s+RaftNode\b")
        i1 = body.find("persist_installed_log(")
        i2 = body.find("persistent.log = entries")
        _, hb = find_fn(raft, "persist_installed_log", after=r"impl\s+RaftNode\b")
        snap_logged = (0 <= i1 < i2) and "persist_log_entry" in hb and "LogTruncate" in hb
        items["install_snapshot_entries logs the installed entries before it replaces the log"] = "translated"
    except Exception as ex:
        items["install_snapshot_entries logs the installed entries before it replaces the log"] = "miss:%s" % ex
    cap = "None"
    try:
        cap = scan_cap(strip_comments(read(repo, "tensor_chain/src/raft_wal.rs")))
        items["RaftWal tail-repair scan follows every record length"] = "translated"
    except Exception as ex:
        items["RaftWal tail-repair scan follows every record length"] = "miss:%s" % ex
    text = HEADER + (
        "From NV.Common Require Import Base.\n\n"
        "(* tensor_chain/src/raft_wal.rs RaftWal::open_with_config *)\n"
        "Definition gen_raft_tail_repair : bool := %s.\n"
        "(* raft.rs: persist_term_and_vote precedes every assignment of current_term / voted_for *)\n"
        "Definition gen_persist_before : bool := %s.\n" % (_b(tail_repair), _b(persist_before))
    )
    text += "(* raft.rs: every self.persist_term_and_vote(T, V) call outside the tests, in source order:\n"
    for (fn, tl, vl, tm, vm, ok) in sites:
        text += "     %s: logs (%s, %s); memory then adopts (%s, %s)\n" % (fn, tl, vl, tm if tm else "term unchanged", vm)
    text += "   true = the logged term and vote are the ones memory adopts *)\n"
    text += "Definition gen_persist_sites_ok : list bool := [%s].\n" % "; ".join(_b(x[5]) for x in sites)
    text += ("(* install_snapshot_entries: the installed entries are logged (persist_installed_log) before persistent.log is replaced *)\n"
             "Definition gen_snapshot_log_persisted : bool := %s.\n" % _b(snap_logged))
    text += ("(* RaftWal::complete_prefix_len: a record length above this bound is treated as a torn tail (None = no bound) *)\n"
             "Definition gen_raft_scan_cap : option N := %s.\n" % cap)
    return text, items
