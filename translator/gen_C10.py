"""C10: facts about raft_wal.rs / raft.rs that the model's configuration follows.
  gen_raft_tail_repair : RaftWal::open_with_config cuts a torn tail before appending
  gen_persist_before   : every persist_term_and_vote call site precedes the assignment of
                         current_term / voted_for in its handler (persist-before-act)
"""
import os
import re
import sys

sys.path.insert(0, os.path.dirname(os.path.abspath(__file__)))
from rs2v import HEADER, find_fn, read, strip_comments  # noqa: E402


def _b(x):
    return "true" if x else "false"


def generate(repo):
    items = {}
    tail_repair = False
    persist_before = True
    try:
        wal = strip_comments(read(repo, "tensor_chain/src/raft_wal.rs"))
        _, body = find_fn(wal, "open_with_config", after=r"impl\s+RaftWal<FileWriter>")
        tail_repair = bool(re.search(r"set_len\s*\(", body)) and bool(re.search(r"fn\s+complete_prefix_len\b", wal))
        items["RaftWal::open tail repair"] = "translated"
    except Exception as ex:
        items["RaftWal::open tail repair"] = "miss:%s" % ex
    try:
        raft = strip_comments(read(repo, "tensor_chain/src/raft.rs"))
        for fn in ("start_election", "handle_request_vote", "handle_request_vote_response",
                   "handle_append_entries", "handle_append_entries_response"):
            _, body = find_fn(raft, fn, after=r"impl\s+RaftNode\b")
            # every assignment to current_term / voted_for must be preceded by a persist call
            for m in re.finditer(r"persistent\.(current_term|voted_for)\s*=[^=]", body):
                before = body[:m.start()]
                if "persist_term_and_vote" not in before:
                    persist_before = False
        items["persist-before-act call sites"] = "translated"
    except Exception as ex:
        items["persist-before-act call sites"] = "miss:%s" % ex
    text = HEADER + (
        "From NV.Common Require Import Base.\n\n"
        "(* tensor_chain/src/raft_wal.rs RaftWal::open_with_config *)\n"
        "Definition gen_raft_tail_repair : bool := %s.\n"
        "(* raft.rs: persist_term_and_vote precedes every assignment of current_term / voted_for *)\n"
        "Definition gen_persist_before : bool := %s.\n" % (_b(tail_repair), _b(persist_before))
    )
    return text, items
