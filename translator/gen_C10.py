"""C10: facts about raft_wal.rs / raft.rs that the model's configuration follows.
  gen_raft_tail_repair : RaftWal::open_with_config cuts a torn tail before appending
  gen_persist_before   : every persist_term_and_vote call site precedes the assignment of
                         current_term / voted_for in its handler (persist-before-act)
"""
import os
import re
import sys

sys.path.insert(0, os.path.dirname(os.path.abspath(__file__)))
from rs2v import HEADER, find_fn, read, strip_comments  # noqa: E402


def _b(x):
    return "true" if x else "false"



def scan_cap(src, fn_name="complete_prefix_len"):
    """does the tail-repair scan refuse record lengths the writer can produce?  Returns the Gallina
    term of an `option N`: None = every u32 length is followed; Some c = lengths above c are treated
    as a torn tail (Some 0 = a cap is there but its value could not be read)."""
    _, body = find_fn(src, fn_name)
    caps = []
    for m in re.finditer(r"\blen\s*(>=|>)\s*([A-Za-z_][A-Za-z0-9_:]*|[0-9][0-9_]*)", body):
        rhs = m.group(2)
        if rhs in ("file_len",):
            continue
        val = None
        if rhs[0].isdigit():
            val = int(rhs.replace("_", ""))
        else:
            name = rhs.split("::")[-1]
            cm = re.search(r"const\s+%s\s*:\s*\w+\s*=\s*([^;]+);" % re.escape(name), src)
            if cm:
                try:
                    val = int(eval(cm.group(1).replace("_", ""), {"__builtins__": {}}, {}))
                except Exception:
                    val = None
        caps.append(0 if val is None else val)
    # a comparison of u64::from(len) / len as u64 against something other than the file length
    for m in re.finditer(r"(u64::from\(len\)|len\s+as\s+u64)\s*(>=|>)\s*([A-Za-z_][A-Za-z0-9_:]*)", body):
        if m.group(3) != "file_len":
            caps.append(0)
    return "None" if not caps else "(Some %d)" % min(caps)


def generate(repo):
    items = {}
    tail_repair = False
    persist_before = True
    try:
        wal = strip_comments(read(repo, "tensor_chain/src/raft_wal.rs"))
        _, body = find_fn(wal, "open_with_config", after=r"impl\s+RaftWal<FileWriter>")
        tail_repair = bool(re.search(r"set_len\s*\(", body)) and bool(re.search(r"fn\s+complete_prefix_len\b", wal))
        items["RaftWal::open tail repair"] = "translated"
    except Exception as ex:
        items["RaftWal::open tail repair"] = "miss:%s" % ex
    try:
        raft = strip_comments(read(repo, "tensor_chain/src/raft.rs"))
        for fn in ("start_election", "handle_request_vote", "handle_request_vote_response",
                   "handle_append_entries", "handle_append_entries_response"):
            _, body = find_fn(raft, fn, after=r"impl\s+RaftNode\b")
            # every assignment to current_term / voted_for must be preceded by a persist call
            for m in re.finditer(r"persistent\.(current_term|voted_for)\s*=[^=]", body):
                before = body[:m.start()]
                if "persist_term_and_vote" not in before:
                    persist_before = False
        items["persist-before-act call sites"] = "translated"
    except Exception as ex:
        items["persist-before-act call sites"] = "miss:%s" % ex
    cap = "None"
    try:
        cap = scan_cap(strip_comments(read(repo, "tensor_chain/src/raft_wal.rs")))
        items["RaftWal tail-repair scan follows every record length"] = "translated"
    except Exception as ex:
        items["RaftWal tail-repair scan follows every record length"] = "miss:%s" % ex
    text = HEADER + (
        "From NV.Common Require Import Base.\n\n"
        "(* tensor_chain/src/raft_wal.rs RaftWal::open_with_config *)\n"
        "Definition gen_raft_tail_repair : bool := %s.\n"
        "(* raft.rs: persist_term_and_vote precedes every assignment of current_term / voted_for *)\n"
        "Definition gen_persist_before : bool := %s.\n" % (_b(tail_repair), _b(persist_before))
    )
    text += ("(* RaftWal::complete_prefix_len: a record length above this bound is treated as a torn tail (None = no bound) *)\n"
             "Definition gen_raft_scan_cap : option N := %s.\n" % cap)
    return text, items
