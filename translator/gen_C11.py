"""C11: the structures each SlabRouter operation touches per key class (one atomic step per lock
acquisition) and the lock scope of put_durable / delete_durable -> coq/gen/Gen_C11.v"""
import os
import re
import sys

sys.path.insert(0, os.path.dirname(os.path.abspath(__file__)))
from rs2v import HEADER, find_fn, match_brace, read, strip_comments  # noqa: E402

COMP = {"index": 0, "embeddings": 1, "metadata": 2, "cache": 3}
CLASSES = ["Embedding", "Graph", "Table", "Cache", "Metadata"]


def arms(body):
    """split `match Self::classify_key(key) { A | B => {..}, _ => .. }` into {class: text}"""
    m = re.search(r"match\s+Self::classify_key\(key\)\s*\{", body)
    if not m:
        raise KeyError("no match on classify_key")
    i = body.index("{", m.start())
    j = match_brace(body, i)
    text = body[i + 1:j]
    out = {}
    pos = 0
    default = None
    pat = re.compile(r"((?:KeyClass::\w+\s*\|?\s*)+|_)\s*=>\s*")
    while True:
        mm = pat.search(text, pos)
        if not mm:
            break
        k = mm.end()
        if text[k] == "{":
            e = match_brace(text, k)
            arm = text[k + 1:e]
            pos = e + 1
        else:
            # expression arm up to the next top-level comma
            depth = 0
            e = k
            while e < len(text) and not (text[e] == "," and depth == 0):
                if text[e] in "({[":
                    depth += 1
                elif text[e] in ")}]":
                    depth -= 1
                e += 1
            arm = text[k:e]
            pos = e + 1
        names = re.findall(r"KeyClass::(\w+)", mm.group(1))
        if names:
            for n in names:
                out[n] = arm
        else:
            default = arm
    for c in CLASSES:
        if c not in out:
            if default is None:
                raise KeyError("no arm for %s" % c)
            out[c] = default
    return out


def comps(arm):
    """structures touched, in source order, one entry per call `self.<comp>.<method>(`"""
    return [COMP[c] for c in re.findall(r"self\s*\.\s*(index|embeddings|metadata|cache)\s*\.\s*\w+\(", arm)]


def atomic_scope(body, apply_call):
    """is the in-memory apply inside the lexical scope of the WAL guard?"""
    m = re.search(r"let\s+(?:mut\s+)?(\w+)\s*=\s*[^;]*\.lock\(\)[^;]*;", body)
    if not m:
        raise KeyError("no WAL guard binding")
    guard = m.group(1)
    # innermost block enclosing the binding
    depth = 0
    start = 0
    stack = []
    for idx, ch in enumerate(body[:m.start()]):
        if ch == "{":
            stack.append(idx)
        elif ch == "}":
            stack.pop()
    if stack:
        start = stack[-1]
        end = match_brace(body, start)
    else:
        start, end = 0, len(body)
    a = body.rfind(apply_call)
    if a < 0:
        raise KeyError("apply call %s not found" % apply_call)
    inside = m.end() <= a < end
    dropped = re.search(r"drop\(\s*%s\s*\)" % guard, body[m.end():a]) is not None
    return inside and not dropped


def generate(repo):
    items = {}
    out = {}

    def item(name, default, fn):
        try:
            out[name] = fn()
            items[name] = "translated"
        except Exception as ex:  # translator miss: documented fallback
            out[name] = default
            items[name] = "miss:%s" % ex

    src = strip_comments(read(repo, "tensor_store/src/slab_router.rs"))

    def steps(fn):
        def f():
            _, body = find_fn(src, fn, after=r"impl\s+SlabRouter\b")
            pre = comps(body[:body.index("match Self::classify_key(key)")])
            a = arms(body)
            uses_exists = "self.exists(key)" in body[:body.index("match Self::classify_key(key)")]
            return {c: (uses_exists, pre + comps(a[c])) for c in CLASSES}
        return f
    dflt_put = {"Embedding": (False, [0, 1, 2]), "Graph": (False, [2]), "Table": (False, [2]), "Cache": (False, [3]), "Metadata": (False, [2])}
    dflt_get = {"Embedding": (False, [0, 1, 2, 2]), "Graph": (False, [2]), "Table": (False, [2]), "Cache": (False, [3]), "Metadata": (False, [2])}
    dflt_del = {"Embedding": (True, [0, 1, 0, 2]), "Graph": (True, [0, 2]), "Table": (True, [0, 2]), "Cache": (True, [3]), "Metadata": (True, [0, 2])}
    dflt_ex = {"Embedding": (False, [0, 2]), "Graph": (False, [2]), "Table": (False, [2]), "Cache": (False, [3]), "Metadata": (False, [2])}
    item("put_steps", dflt_put, steps("put"))
    item("get_steps", dflt_get, steps("get"))
    item("delete_steps", dflt_del, steps("delete"))
    item("exists_steps", dflt_ex, steps("exists"))

    def scan_steps():
        _, body = find_fn(src, "scan", after=r"impl\s+SlabRouter\b")
        return comps(body)
    item("scan_steps", [2, 0, 3], scan_steps)

    def emb_locked():
        for fn, mode in (("put", "write"), ("get", "read"), ("delete", "write"), ("exists", "read")):
            _, body = find_fn(src, fn, after=r"impl\s+SlabRouter\b")
            arm = arms(body)["Embedding"]
            if not re.match(r"\s*let\s+_\w+\s*=\s*self\.emb_lock\(key\)\.%s\(\)\s*;" % mode, arm):
                return False
        return True
    item("emb_locked", False, emb_locked)

    def cache_get_checks_key():
        cr = strip_comments(read(repo, "tensor_store/src/cache_ring.rs"))
        _, body = find_fn(cr, "get", after=r"impl<V:\s*Clone>\s*CacheRing<V>")
        # get reads the slot number under the index lock and the slot under the slots lock: the slot may
        # have been re-used in between, so the entry's key must be compared before its value is returned
        return re.search(r"if\s+entry\.key\s*==\s*key\s*\{[^}]*return\s+Some\(entry\.value\.clone\(\)\)", body, re.S) is not None
    item("cache_get_checks_key", True, cache_get_checks_key)

    def scan_one_lock():
        ms = strip_comments(read(repo, "tensor_store/src/metadata_slab.rs"))
        _, body = find_fn(ms, "scan", after=r"impl\s+MetadataSlab\b")
        # non-empty prefix: keys AND values are copied while the one shard guard is held
        g = re.search(r"let\s+shard\s*=\s*self\.shards\[[^\]]+\]\.read\(\)\s*;", body)
        if not g:
            return False
        rest = body[g.end():]
        copies = re.findall(r"shard\s*\.range\([^)]*\)\s*\.map\(\|\(k,\s*v\)\|\s*\(k\.clone\(\),\s*v\.clone\(\)\)\)\s*\.collect\(\)", rest)
        return len(copies) >= 1 and ".read()" not in rest
    item("scan_one_lock", True, scan_one_lock)

    def index_visible():
        # put_durable registers a new key in the entity index before its value is applied: exists and scan
        # must not report such a key before get finds it
        _, sc = find_fn(src, "scan", after=r"impl\s+SlabRouter\b")
        _, ex = find_fn(src, "exists", after=r"impl\s+SlabRouter\b")
        scan_ok = re.search(r"for\s*\(key,\s*_\)\s*in\s*self\.index\.scan_prefix\(prefix\)\s*\{\s*if\s+[^{]*self\.exists\(&key\)", sc) is not None
        arm = arms(ex)["Embedding"] if "match Self::classify_key(key)" in ex else ""
        ex_ok = "self.index.contains(key)" not in arm and re.search(r"self\.metadata\.contains\(key\)", arm) is not None and "self.embeddings.contains(" in arm
        return scan_ok and ex_ok
    item("index_entry_visible_only_with_value", True, index_visible)

    def next_prefix_on_chars():
        ms = strip_comments(read(repo, "tensor_store/src/metadata_slab.rs"))
        _, body = find_fn(ms, "next_prefix")
        return "prefix.chars()" in body and "char::from_u32" in body and "from_utf8(" not in body
    item("next_prefix_on_chars", True, next_prefix_on_chars)

    def id_alloc_locked():
        _, body = find_fn(src, "put_durable", after=r"impl\s+SlabRouter\b")
        lock = re.search(r"\.lock\(\)", body)
        alloc = [m.start() for m in re.finditer(r"self\.index\.get_or_create\(", body)]
        # entity ids are positional and replay re-allocates them in log order: the live allocation
        # must happen under the WAL guard, i.e. in log order too
        return lock is not None and all(a > lock.start() for a in alloc)
    item("durable_id_alloc_locked", True, id_alloc_locked)

    def bloom_add_first():
        lib = strip_comments(read(repo, "tensor_store/src/lib.rs"))
        for fn in ("put", "put_durable"):
            _, body = find_fn(lib, fn, after=r"impl\s+TensorStore\b")
            a = body.find("filter.add(&key)")
            w = body.find("self.router")
            # the key must be admissible to get/exists before a scan can list it
            if a < 0 or w < 0 or a > w:
                return False
        return True
    item("bloom_add_before_write", True, bloom_add_first)

    def replay_registers_like_put_durable():
        _, body = find_fn(src, "apply_wal_entry", after=r"impl\s+SlabRouter\b")
        m = re.search(r"WalEntry::MetadataSet\s*\{[^}]*\}\s*=>\s*\{", body)
        if not m:
            return False
        arm = body[m.end():body.find("WalEntry::MetadataDelete", m.end())]
        # put_durable allocates an entity id for EVERY key whose value carries an `_embedding`; replay must do the
        # same (positional ids): the `_embedding` branch calls get_or_create outside any embedding-class test
        emb = re.search(r"if\s+let\s+Some\(TensorValue::Vector\(\w+\)\)\s*=\s*data\.get\(\"_embedding\"\)\s*\{\s*let\s+entity_id\s*=\s*self\.index\.get_or_create\(key\)", arm)
        if not emb:
            return False
        before = arm[:emb.start()]
        # that branch must not sit inside `if classify_key(key) == Embedding { ... }`
        opens = before.count("{") - before.count("}")
        return opens == 0
    item("replay_registers_like_put_durable", True, replay_registers_like_put_durable)

    def slot_alloc_rmw():
        es = strip_comments(read(repo, "tensor_store/src/embedding_slab.rs"))
        _, body = find_fn(es, "allocate_slot", after=r"impl\s+EmbeddingSlab\b")
        # two first puts must never get the same slot: the write position advances by ONE atomic read-modify-write
        return re.search(r"self\.write_pos\.fetch_add\(\s*1\s*,", body) is not None and "write_pos.store(" not in body and "write_pos.load(" not in body
    item("slot_alloc_fetch_add", True, slot_alloc_rmw)

    def bloom_add_rmw():
        lib = strip_comments(read(repo, "tensor_store/src/lib.rs"))
        _, body = find_fn(lib, "add", after=r"impl\s+BloomFilter\b")
        # concurrent adds set bits of one word: it must be ONE atomic read-modify-write per bit
        return re.search(r"\.fetch_or\(\s*1\s*<<\s*bit_offset", body) is not None and ".store(" not in body and "compare_exchange" not in body
    item("bloom_add_fetch_or", True, bloom_add_rmw)

    def atomic():
        _, b1 = find_fn(src, "put_durable", after=r"impl\s+SlabRouter\b")
        _, b2 = find_fn(src, "delete_durable", after=r"impl\s+SlabRouter\b")
        return atomic_scope(b1, "self.put(key, value)") and atomic_scope(b2, "self.delete(key)")
    item("log_apply_atomic", True, atomic)

    def tab(name, d):
        rows = []
        for i, c in enumerate(CLASSES):
            ex, cs = d[c]
            rows.append("  | %d => (%s, [%s])" % (i, "true" if ex else "false", "; ".join(str(x) for x in cs)))
        return ("(* per key class (0 embedding 1 graph 2 table 3 cache 4 metadata): (starts with self.exists(key), structures\n"
                "   touched in order: 0 entity index, 1 embedding slab, 2 metadata slab, 3 cache ring) *)\n"
                "Definition %s (cls : N) : bool * list N :=\n  match cls with\n%s\n  | _ => (false, [])\n  end.\n" % (name, "\n".join(rows)))

    text = HEADER + "From NV.Common Require Import Base.\nOpen Scope N_scope.\n\n(* tensor_store/src/slab_router.rs *)\n"
    text += tab("gen_put_steps", out["put_steps"])
    text += tab("gen_get_steps", out["get_steps"])
    text += tab("gen_delete_steps", out["delete_steps"])
    text += tab("gen_exists_steps", out["exists_steps"])
    text += "Definition gen_scan_steps : list N := [%s].\n" % "; ".join(str(x) for x in out["scan_steps"])
    text += "(* every embedding-class arm of put/get/delete/exists starts by taking the key's lock stripe *)\n"
    text += "Definition gen_emb_locked : bool := %s.\n" % ("true" if out["emb_locked"] else "false")
    text += "(* MetadataSlab::scan (non-empty prefix) copies keys and values under ONE acquisition of the shard lock *)\n"
    text += "Definition gen_scan_one_lock : bool := %s.\n" % ("true" if out["scan_one_lock"] else "false")
    text += "(* exists (embedding keys) and the index part of scan report a key only when get would find it *)\n"
    text += "Definition gen_index_entry_visible_only_with_value : bool := %s.\n" % ("true" if out["index_entry_visible_only_with_value"] else "false")
    text += "(* MetadataSlab::next_prefix increments the last CHARACTER of the prefix (never yields invalid UTF-8) *)\n"
    text += "Definition gen_next_prefix_on_chars : bool := %s.\n" % ("true" if out["next_prefix_on_chars"] else "false")
    text += "(* put_durable allocates the entity id of an embedding under the WAL guard (log order = allocation order) *)\n"
    text += "Definition gen_durable_id_alloc_locked : bool := %s.\n" % ("true" if out["durable_id_alloc_locked"] else "false")
    text += "(* TensorStore::put / put_durable feed the Bloom filter BEFORE the router write *)\n"
    text += "Definition gen_bloom_add_before_write : bool := %s.\n" % ("true" if out["bloom_add_before_write"] else "false")
    text += "(* apply_wal_entry(MetadataSet) allocates an entity id for every value carrying `_embedding`, as put_durable does *)\n"
    text += "Definition gen_replay_registers_like_put_durable : bool := %s.\n" % ("true" if out["replay_registers_like_put_durable"] else "false")
    text += "(* EmbeddingSlab::allocate_slot advances the write position with one atomic fetch_add (no load + store) *)\n"
    text += "Definition gen_slot_alloc_fetch_add : bool := %s.\n" % ("true" if out["slot_alloc_fetch_add"] else "false")
    text += "(* BloomFilter::add sets each bit with one atomic fetch_or (no load + store) *)\n"
    text += "Definition gen_bloom_add_fetch_or : bool := %s.\n" % ("true" if out["bloom_add_fetch_or"] else "false")
    text += "(* CacheRing::get compares the slot entry's key before returning its value *)\n"
    text += "Definition gen_cache_get_checks_key : bool := %s.\n" % ("true" if out["cache_get_checks_key"] else "false")
    text += "(* put_durable / delete_durable: the in-memory apply runs inside the WAL guard's scope *)\n"
    text += "Definition gen_log_apply_atomic : bool := %s.\n" % ("true" if out["log_apply_atomic"] else "false")
    return text, items


if __name__ == "__main__":
    t, i = generate(sys.argv[1] if len(sys.argv) > 1 else "/repo")
    print(t)
    print(i)
