"""C12: items regenerated from tensor_chain/src/distributed_tx.rs on every run
   gen_is_expired         KeyLock::is_expired            (expression)
   gen_blocks             the refusal test of try_lock / try_lock_with_wait_tracking (expression)
   gen_lock_ops_atomic    every LockManager op takes BOTH table guards once, before any table access
   gen_wait_under_locks   try_lock_with_wait_tracking updates the wait graph before dropping the guards
   gen_finish_releases    commit/abort/cleanup_timeouts call lock_manager.release(tx)
   gen_finish_unwaits     commit/abort/cleanup_timeouts call wait_graph.remove_transaction(tx)
   gen_detect_observes    DeadlockDetector::detect (deadlock.rs) only reads the wait-for graph: it calls no graph method other
                          than detect_cycles / get_wait_start / get_priority (in particular no cleanup_stale_edges)"""
import os
import re
import sys

sys.path.insert(0, os.path.dirname(os.path.abspath(__file__)))
from rs2v import HEADER, Env, coq, find_fn, parse_body, parse_expr, read, strip_comments  # noqa: E402

LM_OPS = ["try_lock", "release", "release_by_handle", "release_by_handle_with_wait_cleanup", "cleanup_expired",
          "cleanup_expired_with_wait_cleanup", "try_lock_with_wait_tracking"]
FINISHERS = ["commit", "abort", "cleanup_timeouts"]


def both_guards_first(body):
    """exactly one acquisition of each table guard (write), and both precede every other table access"""
    a = [m.start() for m in re.finditer(r"self\s*\.\s*locks\s*\.\s*(write|read)\s*\(\s*\)", body)]
    b = [m.start() for m in re.finditer(r"self\s*\.\s*tx_locks\s*\.\s*(write|read)\s*\(\s*\)", body)]
    if len(a) != 1 or len(b) != 1:
        return False
    if not re.search(r"let\s+mut\s+locks\s*=\s*self\s*\.\s*locks\s*\.\s*write\s*\(\s*\)\s*;", body):
        return False
    if not re.search(r"let\s+mut\s+tx_locks\s*=\s*self\s*\.\s*tx_locks\s*\.\s*write\s*\(\s*\)\s*;", body):
        return False
    last_acq = max(a[0], b[0])
    for m in re.finditer(r"(?<![\w.])(locks|tx_locks)\s*\.", body):
        if m.start() < last_acq:
            return False
    return True


def generate(repo):
    items = {}
    d_exp = "(N.ltb tmo (now - acq))"
    d_blk = "(andb (negb ex) (negb (N.eqb owner tx)))"
    exp_t, blk_t = d_exp, d_blk
    atomic = wait_under = rel = unw = observes = None
    try:
        src = strip_comments(read(repo, "tensor_chain/src/distributed_tx.rs"))
    except Exception as ex:  # noqa: BLE001
        src = None
        items["*"] = "miss:%s" % ex
    if src is not None:
        try:
            _, body = find_fn(src, "is_expired", after=r"impl\s+KeyLock\b")
            body = body.replace("now_epoch_millis()", "now")
            env = Env({"now": "now", "self.acquired_at_ms": "acq", "self.timeout_ms": "tmo"})
            exp_t = coq(parse_body(body), env)
            items["KeyLock::is_expired"] = "translated"
        except Exception as ex:  # noqa: BLE001
            items["KeyLock::is_expired"] = "miss:%s" % ex
        try:
            conds = []
            for fn in ("try_lock", "try_lock_with_wait_tracking"):
                _, body = find_fn(src, fn, after=r"impl\s+LockManager\b")
                m = re.search(r"if\s+let\s+Some\s*\(\s*existing\s*\)\s*=\s*locks\s*\.\s*get\s*\(\s*key\s*\)\s*\{\s*if\s+([^{]+)\{", body)
                if not m:
                    raise KeyError("refusal test of %s not found" % fn)
                conds.append(re.sub(r"\s+", " ", m.group(1).strip()))
            if conds[0] != conds[1]:
                raise KeyError("the two refusal tests differ: %r vs %r" % tuple(conds))
            text = conds[0].replace("existing.is_expired()", "ex")
            env = Env({"ex": "ex", "existing.tx_id": "owner", "tx_id": "tx"})
            blk_t = coq(parse_expr(text), env)
            items["LockManager refusal test"] = "translated"
        except Exception as ex:  # noqa: BLE001
            items["LockManager refusal test"] = "miss:%s" % ex
        try:
            bad = []
            for fn in LM_OPS:
                _, body = find_fn(src, fn, after=r"impl\s+LockManager\b")
                if not both_guards_first(body):
                    bad.append(fn)
            atomic = not bad
            items["LockManager ops hold both table guards"] = "translated" + ("" if atomic else " (not atomic: %s)" % ",".join(bad))
        except Exception as ex:  # noqa: BLE001
            items["LockManager ops hold both table guards"] = "miss:%s" % ex
        try:
            _, body = find_fn(src, "try_lock_with_wait_tracking", after=r"impl\s+LockManager\b")
            drops = [m.start() for m in re.finditer(r"\bdrop\s*\(\s*(locks|tx_locks)\s*\)", body)]
            upd = [m.start() for m in re.finditer(r"wait_graph\s*\.\s*(add_wait|remove_transaction)\s*\(", body)]
            if not upd:
                raise KeyError("no wait-graph update found")
            # every update is followed (not preceded) by the drops of its own branch: the nearest preceding drop
            # must belong to an earlier `return`ed branch, i.e. there is a `return` between that drop and the update
            ok = True
            for u in upd:
                prev = [d for d in drops if d < u]
                if prev and "return" not in body[max(prev):u]:
                    ok = False
            wait_under = ok
            items["wait-graph update under the table guards"] = "translated"
        except Exception as ex:  # noqa: BLE001
            items["wait-graph update under the table guards"] = "miss:%s" % ex
        try:
            r_all, u_all = True, True
            for fn in FINISHERS:
                _, body = find_fn(src, fn, after=r"impl\s+DistributedTxCoordinator\b")
                if "release_by_handle_with_wait_cleanup" not in body:
                    raise KeyError("%s: handle release loop not found" % fn)
                if not re.search(r"lock_manager\s*\.\s*release\s*\(\s*\*?\s*tx_id\s*\)", body):
                    r_all = False
                if not re.search(r"wait_graph\s*\.\s*remove_transaction\s*\(\s*\*?\s*tx_id\s*\)", body):
                    u_all = False
            rel, unw = r_all, u_all
            items["finish releases by tx / leaves the wait graph"] = "translated"
        except Exception as ex:  # noqa: BLE001
            items["finish releases by tx / leaves the wait graph"] = "miss:%s" % ex

    try:
        dsrc = strip_comments(read(repo, "tensor_chain/src/deadlock.rs"))
        _, body = find_fn(dsrc, "detect", after=r"impl\s+DeadlockDetector\b")
        calls = set(re.findall(r"(?:self\s*\.\s*)?graph\s*\.\s*(\w+)\s*\(", body))
        observes = calls <= {"detect_cycles", "get_wait_start", "get_priority", "edge_count", "waiting_for", "is_empty"} and "detect_cycles" in calls
        items["DeadlockDetector::detect only observes the graph"] = "translated" + ("" if observes else " (calls: %s)" % ",".join(sorted(calls)))
    except Exception as ex:  # noqa: BLE001
        items["DeadlockDetector::detect only observes the graph"] = "miss:%s" % ex

    def b(x, default):
        return "true" if (default if x is None else x) else "false"

    text = HEADER + (
        "From NV.Common Require Import Base.\nOpen Scope N_scope.\n\n"
        "(* distributed_tx.rs KeyLock::is_expired (now_epoch_millis() = now) *)\n"
        "Definition gen_is_expired (now acq tmo : N) : bool :=\n  %s.\n\n"
        "(* the refusal test inside try_lock / try_lock_with_wait_tracking (ex = existing.is_expired()) *)\n"
        "Definition gen_blocks (ex : bool) (owner tx : N) : bool :=\n  %s.\n\n"
        "(* every LockManager op acquires locks.write() and tx_locks.write() once, before any table access *)\n"
        "Definition gen_lock_ops_atomic : bool := %s.\n"
        "(* try_lock_with_wait_tracking calls add_wait / remove_transaction before dropping the guards *)\n"
        "Definition gen_wait_under_locks : bool := %s.\n"
        "(* DistributedTxCoordinator::{commit, abort, cleanup_timeouts} call lock_manager.release(tx_id) *)\n"
        "Definition gen_finish_releases : bool := %s.\n"
        "(* ... and wait_graph.remove_transaction(tx_id) *)\n"
        "Definition gen_finish_unwaits : bool := %s.\n"
        "(* DeadlockDetector::detect calls no mutating method of the wait-for graph *)\n"
        "Definition gen_detect_observes : bool := %s.\n"
        % (exp_t, blk_t, b(atomic, True), b(wait_under, True), b(rel, True), b(unw, True), b(observes, False))
    )
    return text, items
