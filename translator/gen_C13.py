"""C13: facts about tx_wal.rs / distributed_tx.rs that the model's configuration follows.
  gen_tx_tail_repair   : TxWal::open_with_config cuts a torn tail before appending
  gen_vote_first_wins  : restore_tx keeps the FIRST logged vote of a shard (the one the live
                         coordinator accepted) instead of the last
  gen_complete_before_release : commit/abort log TxComplete before releasing any lock
  gen_timeout_abort_logged : cleanup_timeouts logs PhaseChange -> Aborting and TxComplete{Aborted}
                         for a timed-out transaction before it removes it / releases its locks
  gen_scan_phase_plain / gen_scan_complete_plain : the PhaseChange / TxComplete arms of scan_entries
                         are the unconditional ones of the model (every phase record of a
                         transaction in progress moves its phase; every completion removes it)
"""
import os
import re
import sys

sys.path.insert(0, os.path.dirname(os.path.abspath(__file__)))
from rs2v import HEADER, find_fn, read, strip_comments  # noqa: E402


def _b(x):
    return "true" if x else "false"



def scan_cap(src, fn_name="complete_prefix_len"):
    """does the tail-repair scan refuse record lengths the writer can produce?  Returns the Gallina
    term of an `option N`: None = every u32 length is followed; Some c = lengths above c are treated
    as a torn tail (Some 0 = a cap is there but its value could not be read)."""
    _, body = find_fn(src, fn_name)
    caps = []
    for m in re.finditer(r"\blen\s*(>=|>)\s*([A-Za-z_][A-Za-z0-9_:]*|[0-9][0-9_]*)", body):
        rhs = m.group(2)
        if rhs in ("file_len",):
            continue
        val = None
        if rhs[0].isdigit():
            val = int(rhs.replace("_", ""))
        else:
            name = rhs.split("::")[-1]
            cm = re.search(r"const\s+%s\s*:\s*\w+\s*=\s*([^;]+);" % re.escape(name), src)
            if cm:
                try:
                    val = int(eval(cm.group(1).replace("_", ""), {"__builtins__": {}}, {}))
                except Exception:
                    val = None
        caps.append(0 if val is None else val)
    # a comparison of u64::from(len) / len as u64 against something other than the file length
    for m in re.finditer(r"(u64::from\(len\)|len\s+as\s+u64)\s*(>=|>)\s*([A-Za-z_][A-Za-z0-9_:]*)", body):
        if m.group(3) != "file_len":
            caps.append(0)
    return "None" if not caps else "(Some %d)" % min(caps)


def generate(repo):
    items = {}
    tail_repair = first_wins = scan_live = False
    complete_first = True
    try:
        wal = strip_comments(read(repo, "tensor_chain/src/tx_wal.rs"))
        _, body = find_fn(wal, "open_with_config", after=r"impl\s+TxWal\b")
        tail_repair = bool(re.search(r"set_len\s*\(", body)) and bool(re.search(r"fn\s+complete_prefix_len\b", wal))
        items["TxWal::open tail repair"] = "translated"
    except Exception as ex:
        items["TxWal::open tail repair"] = "miss:%s" % ex
    try:
        dtx = strip_comments(read(repo, "tensor_chain/src/distributed_tx.rs"))
        _, body = find_fn(dtx, "recover_from_wal", after=r"impl\s+DistributedTxCoordinator\b")
        if re.search(r"tx\.votes\.entry\s*\(\s*\*shard\s*\)\s*\.or_insert", body):
            first_wins = True
        elif re.search(r"tx\.votes\.insert\s*\(\s*\*shard", body):
            first_wins = False
        else:
            raise ValueError("vote restore statement not recognised")
        items["restore_tx vote rule"] = "translated"
    except Exception as ex:
        items["restore_tx vote rule"] = "miss:%s" % ex
    try:
        _, body = find_fn(wal, "scan_entries", after=r"impl\s+TxRecoveryState\b")
        m = re.search(r"TxWalEntry::PrepareVote\s*\{[^}]*\}\s*=>\s*\{(.*?)\n\s*\},\s*\n\s*TxWalEntry::PhaseChange", body, re.S)
        arm = m.group(1) if m else ""
        scan_live = bool(re.search(r"\*phase\s*==\s*TxPhase::Preparing", arm)) and bool(re.search(r"!\s*votes\.iter\(\)\.any\(", arm))
        if not m:
            raise ValueError("PrepareVote arm not found")
        items["scan_entries vote rule"] = "translated"
    except Exception as ex:
        items["scan_entries vote rule"] = "miss:%s" % ex
    try:
        for fn in ("commit", "abort"):
            _, body = find_fn(dtx, fn, after=r"impl\s+DistributedTxCoordinator\b")
            i1 = body.find("TxWalEntry::TxComplete")
            i2 = body.find("release_by_handle_with_wait_cleanup")
            if not (0 <= i1 < i2):
                complete_first = False
        items["TxComplete before lock release"] = "translated"
    except Exception as ex:
        items["TxComplete before lock release"] = "miss:%s" % ex
    timeout_logged = False
    try:
        _, body = find_fn(dtx, "cleanup_timeouts", after=r"impl\s+DistributedTxCoordinator\b")
        i0 = body.find("TxWalEntry::PhaseChange")
        i1 = body.find("TxWalEntry::TxComplete")
        i2 = body.find("pending.remove")
        i3 = body.find("release_by_handle_with_wait_cleanup")
        timeout_logged = (0 <= i0 < i1 < i2) and (i1 < i3) and bool(re.search(r"to\s*:\s*TxPhase::Aborting", body[i0:i1])) \
            and bool(re.search(r"outcome\s*:\s*TxOutcome::Aborted", body[i1:i2]))
        items["cleanup_timeouts logs the abort"] = "translated"
    except Exception as ex:
        items["cleanup_timeouts logs the abort"] = "miss:%s" % ex
    committing_kept = False
    try:
        _, ab = find_fn(dtx, "abort", after=r"impl\s+DistributedTxCoordinator\b")
        m = re.search(r"if\s+from_phase\s*==\s*TxPhase::Committing\s*\{(.*?)\n        \}", ab, re.S)
        refuse = bool(m) and "return Err" in m.group(1) and ab.find("log_wal_entry") > m.end()
        _, ct = find_fn(dtx, "cleanup_timeouts", after=r"impl\s+DistributedTxCoordinator\b")
        skip = bool(re.search(r"filter\(\|\(_,\s*tx\)\|\s*tx\.is_timed_out\(\)\s*&&\s*tx\.phase\s*!=\s*TxPhase::Committing\s*\)", ct))
        committing_kept = refuse and skip
        items["abort refuses / the sweep skips a Committing transaction"] = "translated"
    except Exception as ex:
        items["abort refuses / the sweep skips a Committing transaction"] = "miss:%s" % ex
    drops_done = False
    try:
        _, rb = find_fn(dtx, "recover_from_wal", after=r"impl\s+DistributedTxCoordinator\b")
        m1 = re.search(r"for\s+tx_id\s+in\s+&recovery_state\.completed_txs\s*\{\s*pending\.remove\(tx_id\);", rb)
        m2 = re.search(r"for\s+tx_id\s+in\s+&recovery_state\.completed_txs\s*\{\s*self\.lock_manager\.release\(\*tx_id\);", rb)
        no_clear = "pending.clear()" not in rb
        _, fe = find_fn(wal, "from_entries", after=r"impl\s+TxRecoveryState\b")
        drops_done = bool(m1) and bool(m2) and no_clear and "state.completed_txs" in fe
        items["recover_from_wal drops completed transactions and keeps the others"] = "translated"
    except Exception as ex:
        items["recover_from_wal drops completed transactions and keeps the others"] = "miss:%s" % ex
    phase_plain = complete_plain = False
    try:
        _, body = find_fn(wal, "scan_entries", after=r"impl\s+TxRecoveryState\b")
        m = re.search(r"TxWalEntry::PhaseChange\s*\{([^}]*)\}\s*=>\s*\{(.*?)\n\s*\},\s*\n\s*TxWalEntry::TxComplete\s*\{([^}]*)\}\s*=>\s*\{(.*?)\n\s*\},\s*\n\s*TxWalEntry::LockRelease", body, re.S)
        if not m:
            raise ValueError("PhaseChange / TxComplete arms not found")
        arm_p = re.sub(r"\s+", " ", m.group(2)).strip()
        phase_plain = arm_p == "if let Some((_, _, phase)) = in_progress.get_mut(tx_id) { *phase = *to; }"
        arm_c = m.group(4)
        complete_plain = (not re.search(r"\b(continue|return|break)\b", arm_c)) and "outcome" not in m.group(3).replace("..", "") \
            and "outcome" not in arm_c and bool(re.search(r"\n\s*in_progress\.remove\(tx_id\);\s*\n\s*completed_txs\.insert\(\*tx_id\);\s*$", arm_c))
        items["scan_entries phase / completion arms"] = "translated"
    except Exception as ex:
        items["scan_entries phase / completion arms"] = "miss:%s" % ex
    cap = "None"
    try:
        cap = scan_cap(strip_comments(read(repo, "tensor_chain/src/tx_wal.rs")))
        items["TxWal tail-repair scan follows every record length"] = "translated"
    except Exception as ex:
        items["TxWal tail-repair scan follows every record length"] = "miss:%s" % ex
    text = HEADER + (
        "From NV.Common Require Import Base.\n\n"
        "(* tensor_chain/src/tx_wal.rs TxWal::open_with_config *)\n"
        "Definition gen_tx_tail_repair : bool := %s.\n"
        "(* tx_wal.rs scan_entries: a vote is recovered only if logged while Preparing and first of its shard *)\n"
        "Definition gen_vote_scan_live : bool := %s.\n"
        "(* distributed_tx.rs recover_from_wal/restore_tx: first logged vote of a shard wins *)\n"
        "Definition gen_vote_first_wins : bool := %s.\n"
        "(* commit/abort: TxComplete is logged before any lock is released *)\n"
        "Definition gen_complete_before_release : bool := %s.\n" % (_b(tail_repair), _b(scan_live), _b(first_wins), _b(complete_first))
    )
    text += ("(* cleanup_timeouts: the timeout abort is logged (phase change, completion) before it takes effect *)\n"
             "Definition gen_timeout_abort_logged : bool := %s.\n"
             "(* abort() refuses a Committing transaction before it logs anything; cleanup_timeouts() leaves it alone *)\n"
             "Definition gen_committing_kept : bool := COMMITTING_KEPT.\n"
             "(* recover_from_wal: transactions the log completed leave the pending table and lose their locks; the table is not cleared *)\n"
             "Definition gen_recovery_drops_completed : bool := DROPS_DONE.\n"
             "(* scan_entries: the PhaseChange arm moves the phase of a transaction in progress unconditionally *)\n"
             "Definition gen_scan_phase_plain : bool := %s.\n"
             "(* scan_entries: the TxComplete arm removes the transaction whatever the outcome / scanned phase *)\n"
             "Definition gen_scan_complete_plain : bool := %s.\n" % (_b(timeout_logged), _b(phase_plain), _b(complete_plain))).replace("COMMITTING_KEPT", _b(committing_kept)).replace("DROPS_DONE", _b(drops_done))
    text += ("(* TxWal::complete_prefix_len: a record length above this bound is treated as a torn tail (None = no bound) *)\n"
             "Definition gen_tx_scan_cap : option N := %s.\n" % cap)
    return text, items
