"""C14: ALLOWED_TRAVERSAL_EDGES, MAX_BFS_DEPTH, prefix-vs-exact match in is_allowed_edge_type (access.rs);
AttenuationPolicy::attenuate and its Default (attenuation.rs); whether the access checks of vault.rs sweep
expired grants first; the default delegation depth."""
import os
import re
import sys

sys.path.insert(0, os.path.dirname(os.path.abspath(__file__)))
from rs2v import HEADER, Env, coq, find_fn, match_brace, parse_body, read, strip_comments  # noqa: E402

LEVEL = {"Permission::Read": "1", "Permission::Write": "2", "Permission::Admin": "3"}


def arm_bodies(body):
    """match perm { Permission::X => <expr or block>, ... } -> {variant: text}"""
    m = re.search(r"match\s+perm\s*\{", body)
    if not m:
        raise ValueError("match perm not found")
    i = body.index("{", m.start())
    j = match_brace(body, i)
    inner = body[i + 1:j]
    arms = {}
    pos = 0
    while True:
        m2 = re.compile(r"\s*(Permission::\w+)\s*=>\s*").match(inner, pos)
        if not m2:
            break
        k = m2.end()
        if inner[k] == "{":
            e = match_brace(inner, k)
            arms[m2.group(1)] = inner[k + 1:e]
            pos = e + 1
        else:
            e = inner.index(",", k)
            arms[m2.group(1)] = inner[k:e]
            pos = e
        while pos < len(inner) and inner[pos] in ", \n\t":
            pos += 1
    return arms


def generate(repo):
    items = {}
    allowed = ["VAULT_ACCESS", "VAULT_ACCESS_READ", "VAULT_ACCESS_WRITE", "VAULT_ACCESS_ADMIN", "MEMBER"]
    depth = 32
    prefix = "true"
    try:
        src = strip_comments(read(repo, "tensor_vault/src/access.rs"))
        m = re.search(r"const\s+ALLOWED_TRAVERSAL_EDGES\s*:\s*&\[&str\]\s*=\s*&\[(.*?)\]\s*;", src, re.S)
        allowed = re.findall(r'"([^"]*)"', m.group(1))
        items["ALLOWED_TRAVERSAL_EDGES"] = "translated"
    except Exception as ex:
        items["ALLOWED_TRAVERSAL_EDGES"] = "miss:%s" % ex
    try:
        src = strip_comments(read(repo, "tensor_vault/src/access.rs"))
        m = re.search(r"const\s+MAX_BFS_DEPTH\s*:\s*usize\s*=\s*(\d+)\s*;", src)
        depth = int(m.group(1))
        _, b = find_fn(src, "is_allowed_edge_type")
        if "starts_with(allowed)" in b:
            prefix = "true"
        elif re.search(r"edge_type\s*==\s*allowed", b):
            prefix = "false"
        else:
            raise ValueError("match shape not recognised")
        items["MAX_BFS_DEPTH / is_allowed_edge_type"] = "translated"
    except Exception as ex:
        items["MAX_BFS_DEPTH / is_allowed_edge_type"] = "miss:%s" % ex

    att_default = ("(if N.ltb (horizon p) hops then 0 else match lvl with\n"
                   "   | 3 => (if N.leb hops (admin_limit p) then 3 else if N.leb hops (write_limit p) then 2 else 1)\n"
                   "   | 2 => (if N.leb hops (write_limit p) then 2 else 1)\n   | 1 => 1\n   | _ => 0 end)")
    att = att_default
    try:
        src = strip_comments(read(repo, "tensor_vault/src/attenuation.rs"))
        _, body = find_fn(src, "attenuate", after=r"impl\s+AttenuationPolicy\b")
        m = re.search(r"if\s+(hops\s*[<>=]+\s*self\.horizon)\s*\{\s*return\s+None\s*;\s*\}", body)
        if not m:
            raise ValueError("horizon guard not found")
        env = Env({"hops": "hops", "self.horizon": "(horizon p)", "self.admin_limit": "(admin_limit p)",
                   "self.write_limit": "(write_limit p)", **LEVEL})
        guard = coq(parse_body(m.group(1)), env)
        arms = arm_bodies(body)
        terms = {LEVEL[k]: coq(parse_body(v), env) for k, v in arms.items()}
        if set(terms) != {"1", "2", "3"}:
            raise ValueError("arms %s" % sorted(terms))
        if "Some(attenuated)" not in body.replace(" ", ""):
            raise ValueError("result shape")
        att = ("(if %s then 0 else match lvl with\n   | 3 => %s\n   | 2 => %s\n   | 1 => %s\n   | _ => 0 end)"
               % (guard, terms["3"], terms["2"], terms["1"]))
        items["AttenuationPolicy::attenuate"] = "translated"
    except Exception as ex:
        items["AttenuationPolicy::attenuate"] = "miss:%s" % ex
    dflt = (1, 2, 10)
    try:
        src = strip_comments(read(repo, "tensor_vault/src/attenuation.rs"))
        m = re.search(r"impl\s+Default\s+for\s+AttenuationPolicy\s*\{", src)
        i = src.index("{", m.start())
        b = src[i:match_brace(src, i)]
        dflt = tuple(int(re.search(r"%s\s*:\s*(\d+)" % f, b).group(1)) for f in ("admin_limit", "write_limit", "horizon"))
        items["AttenuationPolicy::default"] = "translated"
    except Exception as ex:
        items["AttenuationPolicy::default"] = "miss:%s" % ex

    sweep = "true"
    sealed = "true"
    ddepth = 3
    try:
        src = strip_comments(read(repo, "tensor_vault/src/vault.rs"))
        ok = True
        for fn, anchor in (("check_access_with_permission", "check_path_with_permission_verified"),
                           ("has_access", "get_permission_level_verified"),
                           ("get_permission", "get_permission_level_verified")):
            _, b = find_fn(src, fn, after=r"impl\s+Vault\b")
            k = b.index(anchor)
            if "cleanup_expired_grants()" not in b[:k]:
                ok = False
        sweep = "true" if ok else "false"
        _, b = find_fn(src, "cleanup_expired_grants", after=r"impl\s+Vault\b")
        k = b.index("get_expired()")
        sealed = "true" if re.search(r"is_sealed\(\)|check_sealed\(\)", b[:k]) else "false"
        m = re.search(r"max_delegation_depth\.unwrap_or\((\d+)\)", src)
        ddepth = int(m.group(1))
        items["vault.rs access checks sweep expired grants"] = "translated"
    except Exception as ex:
        items["vault.rs access checks sweep expired grants"] = "miss:%s" % ex

    text = HEADER + (
        "From Coq Require Import String.\nFrom NV.Common Require Import Base.\nFrom NV.C14 Require Import Model.\nOpen Scope N_scope.\n\n"
        "(* tensor_vault/src/access.rs *)\n"
        "Definition gen_allowed_edges : list string := [%s]%%string.\n"
        "Definition gen_allow_prefix_match : bool := %s.\n"
        "Definition gen_max_bfs_depth : N := %d.\n"
        "(* tensor_vault/src/attenuation.rs  AttenuationPolicy::attenuate(&self = p, perm = lvl, hops); 0 = None *)\n"
        "Definition gen_attenuate (p : policy) (lvl hops : N) : N :=\n  %s.\n"
        "Definition gen_default_policy : policy := Pol %d %d %d.\n"
        "(* tensor_vault/src/vault.rs: check_access_with_permission, has_access and get_permission call\n"
        "   cleanup_expired_grants() before consulting the graph; DelegationManager depth default *)\n"
        "Definition gen_sweep_on_check : bool := %s.\n"
        "Definition gen_max_deleg_depth : N := %d.\n"
        "(* Vault::cleanup_expired_grants returns before popping tracker entries while the vault is sealed *)\n"
        "Definition gen_sealed_guard : bool := %s.\n"
        % ("; ".join('"%s"' % a for a in allowed), prefix, depth, att, dflt[0], dflt[1], dflt[2], sweep, ddepth, sealed)
    )
    return text, items
