"""C15: the two binding-power tables (expr.rs ExprParser, parser.rs Parser), prefix power, depth
limit / guard of both Pratt loops, token->operator maps, the documented precedence tables
(expr.rs header comment, ast.rs BinaryOp::precedence, docs/book neumann-parser.md) and a
call-graph fact (every recursion cycle of parser.rs passes through a depth-guarded function).
All emitted as plain data into Gen_C15.v; Inst.v proves WellFormedTable / tables_agree / doc
agreement over them by vm_compute on every run."""
import os
import re
import sys

sys.path.insert(0, os.path.dirname(os.path.abspath(__file__)))
from rs2v import HEADER, find_const, find_fn, match_brace, read, strip_comments  # noqa: E402

# fixed operator dictionary (codes used by the model, the harness and the generated tables)
OPS = ["Or", "And", "Eq", "Ne", "Lt", "Le", "Gt", "Ge", "BitOr", "BitXor", "BitAnd", "Shl", "Shr",
       "Add", "Sub", "Concat", "Mul", "Div", "Mod"]
# token kind that current_binary_op must map to each operator
TOK_OF = {"Or": "Or", "And": "And", "Eq": "Eq", "Ne": "Ne", "Lt": "Lt", "Le": "Le", "Gt": "Gt", "Ge": "Ge",
          "BitOr": "Pipe", "BitXor": "Caret", "BitAnd": "Amp", "Shl": "Shl", "Shr": "Shr", "Add": "Plus",
          "Sub": "Minus", "Concat": "Concat", "Mul": "Star", "Div": "Slash", "Mod": "Percent"}
# spelling used by the documentation tables
SYM = {"OR": "Or", "AND": "And", "=": "Eq", "!=": "Ne", "<": "Lt", "<=": "Le", ">": "Gt", ">=": "Ge",
       "|": "BitOr", "^": "BitXor", "&": "BitAnd", "<<": "Shl", ">>": "Shr", "+": "Add", "-": "Sub",
       "||": "Concat", "*": "Mul", "/": "Div", "%": "Mod"}

DEF_TABLE = [(1, 2), (3, 4)] + [(5, 6)] * 6 + [(7, 8), (9, 10), (11, 12), (13, 14), (13, 14)] + [(15, 16)] * 3 + [(17, 18)] * 3
DEF_LEVELS = [1, 2, 3, 3, 3, 3, 3, 3, 4, 5, 6, 7, 7, 8, 8, 8, 9, 9, 9]


def bp_table(src, after=None):
    """fn infix_binding_power: `A | B => (l, r),` arms -> list of (l, r) indexed by OPS"""
    _sig, body = find_fn(src, "infix_binding_power", after=after)
    tab = {}
    for m in re.finditer(r"((?:\w+(?:::\w+)*\s*\|\s*)*\w+(?:::\w+)*)\s*=>\s*\(\s*(\d+)\s*,\s*(\d+)\s*\)", body):
        for name in re.split(r"\s*\|\s*", m.group(1)):
            tab[name.split("::")[-1]] = (int(m.group(2)), int(m.group(3)))
    if re.search(r"\b_\s*=>", body):
        raise KeyError("wildcard arm in infix_binding_power")
    if set(tab) != set(OPS):
        raise KeyError("operator set differs: %s" % sorted(set(tab) ^ set(OPS)))
    return [tab[o] for o in OPS]


def level_table(src):
    """BinaryOp::precedence: `Self::A | Self::B => n,`"""
    _sig, body = find_fn(src, "precedence", after=r"impl\s+BinaryOp\b")
    tab = {}
    for m in re.finditer(r"((?:\w+(?:::\w+)*\s*\|\s*)*\w+(?:::\w+)*)\s*=>\s*(\d+)\s*,", body):
        for name in re.split(r"\s*\|\s*", m.group(1)):
            tab[name.split("::")[-1]] = int(m.group(2))
    if set(tab) != set(OPS):
        raise KeyError("operator set differs: %s" % sorted(set(tab) ^ set(OPS)))
    return [tab[o] for o in OPS]


def left_assoc(src):
    _sig, body = find_fn(src, "is_left_assoc", after=r"impl\s+BinaryOp\b")
    if body.strip() == "true":
        return True
    raise KeyError("is_left_assoc is not the constant true")


def token_map(src, after=None):
    """current_binary_op: TokenKind::X => Some(BinaryOp::Y); returns True iff it is exactly TOK_OF"""
    _sig, body = find_fn(src, "current_binary_op", after=after)
    got = {}
    for m in re.finditer(r"TokenKind::(\w+)\s*=>\s*Some\(\s*BinaryOp::(\w+)\s*\)", body):
        got[m.group(2)] = m.group(1)
    return got == TOK_OF


def guard_of(src, after=None):
    """parse_expr_bp: is `self.depth += 1; if self.depth > MAX_DEPTH { return Err(` the first thing
    it does, and `self.depth -= 1` present?  -> bool"""
    _sig, body = find_fn(src, "parse_expr_bp", after=after)
    b = re.sub(r"\s+", " ", body.strip())
    return bool(re.match(r"self\.depth \+= 1; if self\.depth > MAX_DEPTH \{ return Err\(", b)) and "self.depth -= 1;" in b


def operand_powers(src, after=None):
    """every parse_expr_bp(<arg>) call outside parse_expr/parse_expr_bp: the set of args"""
    args = set(re.findall(r"self\.parse_expr_bp\(\s*([A-Za-z_0-9()]+)\s*\)", src))
    return args


def header_levels(raw):
    """expr.rs header: `//! 3. Comparison (=, !=, <, <=, >, >=)` ... -> levels per op, unary level, postfix level"""
    lev = {}
    unary = postfix = None
    for m in re.finditer(r"(?m)^//!\s*(\d+)\.\s*(.+?)\s*$", raw):
        n, text = int(m.group(1)), m.group(2)
        pm = re.search(r"\((.*)\)", text)
        if text.startswith("Unary"):
            unary = n
            continue
        if text.startswith("Postfix"):
            postfix = n
            continue
        syms = [s.strip() for s in pm.group(1).split(",")] if pm else [text.strip()]
        for s in syms:
            if s not in SYM:
                raise KeyError("unknown operator %r in header comment" % s)
            lev[SYM[s]] = n
    if set(lev) != set(OPS) or unary is None or postfix is None:
        raise KeyError("header comment does not list every operator")
    return [lev[o] for o in OPS], unary, postfix


def book_levels(md):
    """docs table rows `| 3 | =, !=, ... | (5, 6) | Left |` -> levels, bps, all-left?, prefix row"""
    lev, bps = {}, {}
    prefix = None
    allleft = True
    start = md.index("### Binding Power Table")
    for line in md[start:start + 3000].split("\n"):
        cells = [c.strip() for c in line.strip().strip("|").split(" | ")] if line.startswith("|") else []
        if len(cells) != 4 or not re.match(r"\d+", cells[0]):
            continue
        n = int(re.match(r"\d+", cells[0]).group(0))
        ops = re.sub(r"\([^)]*\)", "", cells[1]).replace("`", "").replace("\\|", "|")
        syms = [s.strip() for s in ops.split(",") if s.strip()]
        bm = re.match(r"\(\s*(\d+)\s*,\s*(\d+)\s*\)", cells[2])
        if bm:
            for s in syms:
                if s not in SYM:
                    raise KeyError("unknown operator %r in book table" % s)
                lev[SYM[s]] = n
                bps[SYM[s]] = (int(bm.group(1)), int(bm.group(2)))
            allleft = allleft and cells[3] == "Left"
        else:
            pm = re.match(r"(\d+)\s*\(prefix\)", cells[2])
            if pm:
                prefix = (n, int(pm.group(1)))
    if set(lev) != set(OPS) or prefix is None:
        raise KeyError("book table does not list every operator")
    return [lev[o] for o in OPS], [bps[o] for o in OPS], allleft, prefix


def recursion_guarded(src):
    """call graph of `fn` items in parser.rs (non-test part): after removing the functions that
    increment-and-check self.depth on entry, is the graph acyclic?"""
    k = src.find("#[cfg(test)]")
    body = src if k < 0 else src[:k]
    fns = {}
    for m in re.finditer(r"\bfn\s+(\w+)\b", body):
        try:
            i = body.index("{", m.end())
            semi = body.find(";", m.end())
            if 0 <= semi < i:
                continue
            j = match_brace(body, i)
        except ValueError:
            continue
        fns[m.group(1)] = body[i:j]
    guarded = set()
    for f, b in fns.items():
        bb = re.sub(r"\s+", " ", b[1:].strip())
        if re.match(r"self\.depth \+= 1; if self\.depth > MAX_DEPTH \{ return Err\(", bb):
            guarded.add(f)
    g = {f: (set(re.findall(r"self\.(\w+)\(", b)) & set(fns)) - guarded for f, b in fns.items() if f not in guarded}
    # cycle detection (iterative colouring)
    colour = {}
    for root in g:
        if root in colour:
            continue
        stack = [(root, iter(sorted(g[root])))]
        colour[root] = 1
        while stack:
            v, it = stack[-1]
            for w in it:
                if w not in g:
                    continue
                if colour.get(w) == 1:
                    return False, sorted(guarded)
                if w not in colour:
                    colour[w] = 1
                    stack.append((w, iter(sorted(g[w]))))
                    break
            else:
                colour[v] = 2
                stack.pop()
    return True, sorted(guarded)


def cache_key_is_text(router):
    """query_router cache_key_for_query: the key is the command text itself (ends trimmed), i.e.
    injective on statements; lower-casing / whitespace collapsing / any other normalisation merges
    statements that differ inside string literals"""
    _sig, body = find_fn(router, "cache_key_for_query")
    b = re.sub(r"\s+", " ", body.strip())
    if re.fullmatch(r'format!\("query:\{\}", command\.trim\(\)\)', b):
        return True
    if re.search(r"to_lowercase|to_uppercase|split_whitespace|replace\(|to_ascii", b):
        return False
    raise KeyError("cache_key_for_query shape not recognised: %s" % b[:80])


def cache_invalidation(router):
    """execute_parsed: every write statement invalidates the cache, on success and on error, with no
    further condition on the result"""
    _sig, body = find_fn(router, "execute_parsed")
    b = re.sub(r"\s+", " ", body)
    ok_path = re.search(r"if Self::is_write_statement\(&stmt\) \{ self\.invalidate_cache_on_write\(\); \} Ok\(result\)", b) is not None
    err_path = re.search(r"Err\(e\) => \{ if Self::is_write_statement\(&stmt\) \{ self\.invalidate_cache_on_write\(\); \} return Err\(e\); \}", b) is not None
    return ok_path and err_path


def pairs(t):
    return "[" + "; ".join("(%d, %d)" % x for x in t) + "]"


def nums(t):
    return "[" + "; ".join("%d" % x for x in t) + "]"


def generate(repo):
    items = {}
    out = {}

    def item(name, default, fn):
        try:
            out[name] = fn()
            items[name] = "translated"
        except Exception as ex:  # translator miss: documented fallback
            out[name] = default
            items[name] = "miss:%s" % str(ex)[:120]

    raw_expr = read(repo, "neumann_parser/src/expr.rs")
    raw_parser = read(repo, "neumann_parser/src/parser.rs")
    raw_ast = read(repo, "neumann_parser/src/ast.rs")
    expr = strip_comments(raw_expr)
    parser = strip_comments(raw_parser)
    ast = strip_comments(raw_ast)

    item("infix_expr", DEF_TABLE, lambda: bp_table(expr))
    item("infix_parser", DEF_TABLE, lambda: bp_table(parser))
    item("prefix_expr", 19, lambda: int(find_fn(expr, "prefix_binding_power")[1].strip()))
    item("prefix_parser", 19, lambda: int(find_const(parser, "PREFIX_BP")))
    item("max_depth_expr", 64, lambda: int(find_const(expr, "MAX_DEPTH")))
    item("guard_expr", True, lambda: guard_of(expr))

    def parser_guard():
        g = guard_of(parser)
        return (g, int(find_const(parser, "MAX_DEPTH")) if g else 0)
    item("guard_parser", (False, 0), parser_guard)
    item("tokens_expr", True, lambda: token_map(expr))
    item("tokens_parser", True, lambda: token_map(parser))

    def operands(src, pre):
        a = operand_powers(src) - {"min_bp", "0", "r_bp"}
        return a <= {pre}
    item("operand_powers_expr", True, lambda: operands(expr, "prefix_binding_power()"))
    item("operand_powers_parser", True, lambda: operands(parser, "PREFIX_BP"))
    item("doc_ast_precedence", DEF_LEVELS, lambda: level_table(ast))
    item("doc_ast_left_assoc", True, lambda: left_assoc(ast))
    item("doc_expr_header", (DEF_LEVELS, 10, 11), lambda: header_levels(raw_expr[:2500]))
    item("doc_book", (DEF_LEVELS, DEF_TABLE, True, (10, 19)),
         lambda: book_levels(read(repo, "docs/book/src/architecture/neumann-parser.md")))
    item("recursion_parser", (False, []), lambda: recursion_guarded(parser))
    router = strip_comments(read(repo, "query_router/src/lib.rs"))
    item("cache_key_is_text", True, lambda: cache_key_is_text(router))
    item("cache_invalidation", True, lambda: cache_invalidation(router))

    b = lambda x: "true" if x else "false"  # noqa: E731
    hl, hun, hpost = out["doc_expr_header"]
    bl, bb, bleft, (bpl, bpp) = out["doc_book"]
    pg, pmax = out["guard_parser"]
    rec_ok, rec_guarded = out["recursion_parser"]
    text = HEADER + (
        "From NV.Common Require Import Base.\nOpen Scope N_scope.\n\n"
        "(* operator codes: %s *)\n" % ", ".join("%s=%d" % (o, i) for i, o in enumerate(OPS))
        + "Definition gen_nops : N := %d.\n" % len(OPS)
        + "(* neumann_parser/src/expr.rs: infix_binding_power, prefix_binding_power, MAX_DEPTH, guard *)\n"
        + "Definition gen_infix_expr : list (N * N) := %s.\n" % pairs(out["infix_expr"])
        + "Definition gen_prefix_expr : N := %d.\n" % out["prefix_expr"]
        + "Definition gen_max_depth_expr : N := %d.\n" % out["max_depth_expr"]
        + "Definition gen_guard_expr : bool := %s.\n" % b(out["guard_expr"])
        + "(* neumann_parser/src/parser.rs: the second copy *)\n"
        + "Definition gen_infix_parser : list (N * N) := %s.\n" % pairs(out["infix_parser"])
        + "Definition gen_prefix_parser : N := %d.\n" % out["prefix_parser"]
        + "Definition gen_guard_parser : bool := %s.\n" % b(pg)
        + "Definition gen_max_depth_parser : N := %d.\n" % pmax
        + "(* current_binary_op is the expected token->operator bijection; every other parse_expr_bp\n"
          "   call site (unary operand, LIKE pattern, BETWEEN bounds) passes the prefix power *)\n"
        + "Definition gen_tokens_expr : bool := %s.\nDefinition gen_tokens_parser : bool := %s.\n" % (b(out["tokens_expr"]), b(out["tokens_parser"]))
        + "Definition gen_operand_powers_expr : bool := %s.\nDefinition gen_operand_powers_parser : bool := %s.\n" % (b(out["operand_powers_expr"]), b(out["operand_powers_parser"]))
        + "(* documented precedence: ast.rs BinaryOp::precedence / is_left_assoc; expr.rs header; docs/book *)\n"
        + "Definition gen_doc_ast : list N := %s.\n" % nums(out["doc_ast_precedence"])
        + "Definition gen_doc_ast_left : bool := %s.\n" % b(out["doc_ast_left_assoc"])
        + "Definition gen_doc_header : list N := %s.\n" % nums(hl)
        + "Definition gen_doc_header_unary : N := %d.\nDefinition gen_doc_header_postfix : N := %d.\n" % (hun, hpost)
        + "Definition gen_doc_book : list N := %s.\n" % nums(bl)
        + "Definition gen_doc_book_bp : list (N * N) := %s.\n" % pairs(bb)
        + "Definition gen_doc_book_left : bool := %s.\n" % b(bleft)
        + "Definition gen_doc_book_unary : N := %d.\nDefinition gen_doc_book_prefix_bp : N := %d.\n" % (bpl, bpp)
        + "(* parser.rs call graph: every recursion cycle passes through a function that increments and\n"
          "   checks self.depth on entry (guarded entry points: %s) *)\n" % (", ".join(rec_guarded) or "none")
        + "Definition gen_recursion_guarded_parser : bool := %s.\n" % b(rec_ok)
        + "(* query_router: the query-cache key is the statement text as written (injective), and every\n"
          "   write statement drops the cache on success and on error, unconditionally *)\n"
        + "Definition gen_cache_key_is_text : bool := %s.\n" % b(out["cache_key_is_text"])
        + "Definition gen_cache_invalidation_unconditional : bool := %s.\n" % b(out["cache_invalidation"])
    )
    return text, items
