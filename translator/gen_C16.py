"""C16: header pre-image layout (BlockHeader::hash / signing_bytes) and the presence of the
validation steps of Chain::append / Chain::verify_chain / TensorChain::commit that the theorems
consume  ->  gen_hash_layout, gen_sign_layout : list hfield ; gen_flags : flags"""
import os
import re
import sys

sys.path.insert(0, os.path.dirname(os.path.abspath(__file__)))
from rs2v import HEADER, find_fn, match_brace, read, strip_comments  # noqa: E402

FIELD = {
    "height": "FHeight", "prev_hash": "FPrev", "tx_root": "FTxRoot", "state_root": "FSRoot",
    "delta_embedding": "FEmb", "quantized_codes": "FCodes", "timestamp": "FTs", "proposer": "FProposer",
    "signature": "FSig",
}
STD = ["FHeight", "FPrev", "FTxRoot", "FSRoot", "FEmb", "FCodes", "FTs", "FProposer"]


def layout(body, sink):
    """ordered header fields fed to `sink` (hasher.update / bytes.extend); checks the encodings"""
    out = []
    # statements in source order: direct feeds, the embedding (serialised first), the codes loop
    pat = re.compile(
        r"(?P<direct>" + sink + r"\(\s*&?self\.(?P<f1>\w+)(?P<enc>(?:\.to_le_bytes\(\)|\.as_bytes\(\))?)\s*\))"
        r"|(?P<emb>bitcode::serialize\(\s*&self\.(?P<f2>\w+)\s*\))"
        r"|(?P<loop>for\s+(?P<v>\w+)\s+in\s+&self\.(?P<f3>\w+)\s*\{\s*" + sink + r"\(\s*(?P=v)\.to_le_bytes\(\)\s*\)\s*;?\s*\})")
    emb_fed = re.search(sink + r"\(\s*&?embedding_bytes\s*\)", body) is not None
    for m in pat.finditer(body):
        if m.group("direct"):
            f, enc = m.group("f1"), m.group("enc")
            want = {"height": ".to_le_bytes()", "timestamp": ".to_le_bytes()", "proposer": ".as_bytes()"}.get(f, "")
            if enc != want:
                raise ValueError("field %s fed with encoding %r" % (f, enc))
            out.append(FIELD[f])
        elif m.group("emb"):
            if not emb_fed:
                raise ValueError("embedding serialised but not fed")
            out.append(FIELD[m.group("f2")])
        else:
            out.append(FIELD[m.group("f3")])
    if not out:
        raise ValueError("no fields recognised")
    return out


def generate(repo):
    items = {}
    hash_l, sign_l = STD, STD
    try:
        src = strip_comments(read(repo, "tensor_chain/src/block.rs"))
        _, body = find_fn(src, "hash", after=r"impl\s+BlockHeader\b")
        hash_l = layout(body, r"hasher\.update")
        items["BlockHeader::hash layout"] = "translated"
    except Exception as ex:
        items["BlockHeader::hash layout"] = "miss:%s" % ex
    try:
        src = strip_comments(read(repo, "tensor_chain/src/block.rs"))
        _, body = find_fn(src, "signing_bytes", after=r"impl\s+BlockHeader\b")
        sign_l = layout(body, r"bytes\.extend")
        items["BlockHeader::signing_bytes layout"] = "translated"
    except Exception as ex:
        items["BlockHeader::signing_bytes layout"] = "miss:%s" % ex

    fl = dict(ts="true", sig_all="false", gen="true", minh="1", lock="true")
    try:
        src = strip_comments(read(repo, "tensor_chain/src/chain.rs"))
        _, body = find_fn(src, "append", after=r"impl\s+Chain\b")
        fl["ts"] = "true" if re.search(r"block\.header\.timestamp\s*<\s*\w+\.header\.timestamp", body) else "false"
        m = re.search(r"if\s+expected_height\s*>\s*(\d+)\s*(?:&&[^{]*)?\{", body)
        if not m:
            raise ValueError("signature guard `expected_height > n` not found")
        fl["minh"] = m.group(1)
        i = body.index("{", m.start())
        j = match_brace(body, i)
        inside = body[i:j]
        outside = body[:m.start()] + body[j:]
        if "is_empty()" not in inside and "is_empty()" not in body[m.start():i]:
            raise ValueError("non-empty signature demand not found in the guard")
        fl["sig_all"] = "true" if "verify_signature(" in outside else "false"
        if "verify_signature(" not in inside and fl["sig_all"] == "false":
            raise ValueError("verify_signature not found in append")
        items["Chain::append checks"] = "translated"
    except Exception as ex:
        items["Chain::append checks"] = "miss:%s" % ex
    try:
        src = strip_comments(read(repo, "tensor_chain/src/chain.rs"))
        _, body = find_fn(src, "verify_chain", after=r"impl\s+Chain\b")
        k = body.index("for h in")
        fl["gen"] = "true" if "verify_tx_root()" in body[:k] else "false"
        if "verify_chain(&prev_block)" not in body[k:] or "verify_signature(" not in body[k:]:
            raise ValueError("per-block checks not found in the loop")
        items["Chain::verify_chain checks"] = "translated"
    except Exception as ex:
        items["Chain::verify_chain checks"] = "miss:%s" % ex
    try:
        src = strip_comments(read(repo, "tensor_chain/src/lib.rs"))
        _, body = find_fn(src, "commit", after=r"impl\s+TensorChain\b")
        m = re.search(r"let\s+(\w+)\s*=\s*self\.chain\.commit_lock\.lock\(\)\s*;", body)
        k = body.index("snapshot_bytes()")
        fl["lock"] = "true" if (m and m.group(1) != "_" and m.start() < k and "drop(" + m.group(1) not in body) else "false"
        items["TensorChain::commit lock scope"] = "translated"
    except Exception as ex:
        items["TensorChain::commit lock scope"] = "miss:%s" % ex

    text = HEADER + (
        "From NV.Common Require Import Base.\nFrom NV.C16 Require Import Model.\nOpen Scope N_scope.\n\n"
        "(* tensor_chain/src/block.rs  BlockHeader::hash: fields fed to the hasher, in order *)\n"
        "Definition gen_hash_layout : list hfield := [%s].\n"
        "(* tensor_chain/src/block.rs  BlockHeader::signing_bytes *)\n"
        "Definition gen_sign_layout : list hfield := [%s].\n"
        "(* Chain::append rejects ts < tip ts; verifies the signature at every height; Chain::verify_chain checks the\n"
        "   genesis tx_root; `expected_height > n` guard of the signature demand; TensorChain::commit holds commit_lock\n"
        "   from before snapshot_bytes() to the end *)\n"
        "Definition gen_flags : flags := Fl %s %s %s %s %s.\n"
        % ("; ".join(hash_l), "; ".join(sign_l), fl["ts"], fl["sig_all"], fl["gen"], fl["minh"], fl["lock"])
    )
    return text, items
