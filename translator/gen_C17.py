"""C17: GossipNodeState::supersedes -> gen_supersedes : upd -> upd -> bool"""
import os
import re
import sys

sys.path.insert(0, os.path.dirname(os.path.abspath(__file__)))
from rs2v import HEADER, Env, coq, find_fn, parse_body, read, strip_comments  # noqa: E402


def generate(repo):
    """GossipNodeState::supersedes  ->  gen_supersedes : upd -> upd -> bool"""
    items = {}
    default = "(if N.eqb (inc a) (inc b) then N.ltb (ts b) (ts a) else N.ltb (inc b) (inc a))"
    try:
        src = strip_comments(read(repo, "tensor_chain/src/gossip.rs"))
        sig, body = find_fn(src, "supersedes", after=r"impl\s+GossipNodeState\b")
        m = re.search(r"\(\s*&self\s*,\s*(\w+)\s*:", sig)
        other = m.group(1) if m else "other"
        env = Env({
            "self.incarnation": "(inc a)", "self.timestamp": "(ts a)", "self.health": "(health a)",
            other + ".incarnation": "(inc b)", other + ".timestamp": "(ts b)", other + ".health": "(health b)",
        })
        term = coq(parse_body(body), env)
        items["supersedes"] = "translated"
    except Exception as ex:  # translator miss: documented fallback
        term = default
        items["supersedes"] = "miss:%s" % ex
    text = HEADER + (
        "From NV.Common Require Import Base.\nFrom NV.C17 Require Import Types.\nOpen Scope N_scope.\n\n"
        "(* tensor_chain/src/gossip.rs  GossipNodeState::supersedes(&self = a, other = b) *)\n"
        "Definition gen_supersedes (a b : upd) : bool :=\n  %s.\n" % term
    )
    return text, items


