"""C18: decision expressions of graph_engine/src/lib.rs path queries -> Gallina.

  find_path:            `let neighbor = if edge.from == current {..} else if .. {..} else { continue };`
                        -> gen_fp_neighbor : edge -> N -> option N
  find_weighted_path:   the same statement of the outgoing loop (`node_id` instead of `current`)
                        -> gen_wp_neighbor : edge -> N -> option N
  find_all_paths:       the same statement -> gen_ap_neighbor
"""
import os
import re
import sys

sys.path.insert(0, os.path.dirname(os.path.abspath(__file__)))
from rs2v import HEADER, Env, coq, find_fn, parse_expr, read, strip_comments  # noqa: E402

DEFAULT = ("(if N.eqb (efrom e) cur then Some (eto e) "
           "else if andb (N.eqb (eto e) cur) (negb (edir e)) then Some (efrom e) else None)")


def opt_term(ast, env):
    """if/else tree whose leaves are a node expression or `continue` -> option-valued Gallina"""
    if ast[0] == "if":
        return "(if %s then %s else %s)" % (coq(ast[1], env), opt_term(ast[2], env), opt_term(ast[3], env))
    if ast == ("var", "continue"):
        return "None"
    return "(Some %s)" % coq(ast, env)


def neighbor_rule(body, cur):
    m = re.search(r"let\s+neighbor\s*=\s*(if\b.*?\})\s*;", body, re.S)
    if not m:
        raise KeyError("`let neighbor = if ..;` not found")
    ast = parse_expr(m.group(1))
    env = Env({"edge.from": "(efrom e)", "edge.to": "(eto e)", "edge.directed": "(edir e)", cur: "cur"})
    return opt_term(ast, env)


def generate(repo):
    items = {}
    terms = {}
    try:
        src = strip_comments(read(repo, "graph_engine/src/lib.rs"))
    except Exception as ex:  # noqa: BLE001
        src = None
        err = ex
    for name, fn, cur in (("fp", "find_path", "current"), ("wp", "find_weighted_path", "node_id"), ("ap", "find_all_paths", "current")):
        key = "%s.neighbor_rule" % fn
        try:
            if src is None:
                raise err
            _sig, body = find_fn(src, fn, after=r"impl\s+GraphEngine\b")
            terms[name] = neighbor_rule(body, cur)
            items[key] = "translated"
        except Exception as ex:  # noqa: BLE001  translator miss: documented fallback
            terms[name] = DEFAULT
            items[key] = "miss:%s" % ex
    text = HEADER + (
        "From NV.Common Require Import Base.\nFrom NV.C18 Require Import Model.\nOpen Scope N_scope.\n\n"
        "(* graph_engine/src/lib.rs find_path: neighbour derived from an edge of the expansion list\n"
        "   when standing on `cur` (None = `continue`) *)\n"
        "Definition gen_fp_neighbor (e : edge) (cur : N) : option N :=\n  %s.\n\n"
        "(* find_weighted_path, outgoing-list loop *)\n"
        "Definition gen_wp_neighbor (e : edge) (cur : N) : option N :=\n  %s.\n\n"
        "(* find_all_paths, outgoing-list loop *)\n"
        "Definition gen_ap_neighbor (e : edge) (cur : N) : option N :=\n  %s.\n"
        % (terms["fp"], terms["wp"], terms["ap"])
    )
    return text, items
