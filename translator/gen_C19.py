"""C19: decision expressions of tensor_blob/src/{gc,streaming,integrity}.rs -> gen/Gen_C19.v"""
import os
import re
import sys

sys.path.insert(0, os.path.dirname(os.path.abspath(__file__)))
from rs2v import HEADER, Env, coq, find_fn, parse_expr, read, strip_comments  # noqa: E402

DEFAULTS = {
    "collectable": "(andb (N.eqb refs 0) (N.ltb created min_created))",
    "min_created": "(now - min_age)",
    "rdec": "(N.max (refs - 1) 0)",
    "rinc": "(refs + 1)",
}


def generate(repo):
    items = {}
    terms = dict(DEFAULTS)
    flags = {"fgc_counts_writers": "false", "repair_counts_writers": "false"}
    try:
        gc = strip_comments(read(repo, "tensor_blob/src/gc.rs"))
    except Exception as ex:
        gc = None
        for k in list(terms) + list(flags):
            items[k] = "miss:%s" % ex

    def item(name, fn):
        try:
            terms[name] = fn()
            items[name] = "translated"
        except Exception as ex:
            items[name] = "miss:%s" % ex

    if gc is not None:
        try:
            _, cyc = find_fn(gc, "gc_cycle")
        except Exception as ex:
            cyc = None
            items["collectable"] = items["min_created"] = "miss:%s" % ex
        if cyc is not None:
            def collectable():
                # the `if <cond> {` that guards the delete inside the loop: mentions refs and created
                for m in re.finditer(r"\bif\s+([^{};]+?)\s*\{", cyc):
                    c = m.group(1)
                    if re.search(r"\brefs\b", c) and re.search(r"\bcreated\b", c):
                        return coq(parse_expr(c), Env({"refs": "refs", "created": "created", "min_created": "min_created"}))
                raise KeyError("gc_cycle: no condition over refs and created")
            item("collectable", collectable)

            def min_created():
                m = re.search(r"let\s+min_created\s*=\s*([^;]+);", cyc)
                e = re.sub(r"self\s*\.\s*config\s*\.\s*min_age\s*\.\s*as_secs\s*\(\s*\)", "min_age", m.group(1))
                return coq(parse_expr(e), Env({"now": "now", "min_age": "min_age"}))
            item("min_created", min_created)

        def rdec():
            _, body = find_fn(gc, "decrement_chunk_refs")
            m = re.search(r"let\s+new_refs\s*=\s*([^;]+);", body)
            return coq(parse_expr(m.group(1)), Env({"refs": "refs"}))
        item("rdec", rdec)

        def rinc():
            _, body = find_fn(gc, "increment_chunk_refs")
            m = re.search(r"Int\s*\(\s*(refs[^)]*)\)", body)
            return coq(parse_expr(m.group(1)), Env({"refs": "refs"}))
        item("rinc", rinc)

    # do full_gc / repair count the chunk keys of writers that have not finished yet?
    # = the function scans, besides the artifact records, the prefix under which BlobWriter
    #   registers the keys of the chunks it has stored.
    def writer_prefix():
        st = strip_comments(read(repo, "tensor_blob/src/streaming.rs"))
        m = re.search(r"impl\s+BlobWriter\b", st)
        body = st[m.end():]
        # a record written per stored chunk, other than the chunk / artifact / index records
        prefixes = set(re.findall(r'"(_blob:[a-z_]+:)', body)) - {"_blob:chunk:", "_blob:meta:", "_blob:idx:"}
        cands = set(re.findall(r'const\s+\w+\s*:\s*&str\s*=\s*"(_blob:[a-z_]+:)"', st)) - {"_blob:chunk:", "_blob:meta:", "_blob:idx:"}
        return prefixes | cands

    def scans_writers(src_rel, fn):
        src = strip_comments(read(repo, src_rel))
        _, body = find_fn(src, fn)
        wp = writer_prefix()
        if not wp:
            return "false"
        scanned = set(re.findall(r'scan\s*\(\s*"(_blob:[a-z_]+:)"', body))
        consts = dict(re.findall(r'const\s+(\w+)\s*:\s*&str\s*=\s*"(_blob:[a-z_]+:)"', strip_comments(read(repo, "tensor_blob/src/streaming.rs"))))
        for name, val in consts.items():
            if re.search(r"scan\s*\(\s*(?:crate::)?(?:streaming::)?%s\s*\)" % name, body):
                scanned.add(val)
        return "true" if (wp & scanned) else "false"

    for flag, (rel, fn) in {"fgc_counts_writers": ("tensor_blob/src/gc.rs", "full_gc"),
                            "repair_counts_writers": ("tensor_blob/src/integrity.rs", "repair")}.items():
        try:
            flags[flag] = scans_writers(rel, fn)
            items[flag] = "translated"
        except Exception as ex:
            items[flag] = "miss:%s" % ex

    # is every read-modify-write of chunk records done under the one chunk lock?
    #   id 0 BlobWriter::store_chunk   1 BlobWriter::finish (publish + retire the in-flight record)
    #      2 integrity::delete_artifact 3 gc_cycle (per examined chunk) 4 full_gc  5 integrity::repair
    locked = {}
    LOCK = r"chunk_lock\s*\(\s*\)"

    def first_stmt_locks(body):
        return re.match(r"\s*let\s+_\w*\s*=\s*(?:crate::gc::)?" + LOCK + r"\s*;", body) is not None

    def lock_item(i, name, fn):
        try:
            locked[i] = bool(fn())
            items["locked.%s" % name] = "translated"
        except Exception as ex:
            locked[i] = False
            items["locked.%s" % name] = "miss:%s" % ex

    def _streaming():
        st = strip_comments(read(repo, "tensor_blob/src/streaming.rs"))
        return st[re.search(r"impl\s+BlobWriter\b", st).end():]

    lock_item(0, "store_chunk", lambda: first_stmt_locks(find_fn(_streaming(), "store_chunk")[1]))

    def finish_locked():
        body = find_fn(_streaming(), "finish")[1]
        # a block that takes the lock and, inside it, both puts the artifact record and deletes the writer record
        for m in re.finditer(r"\{\s*let\s+_\w*\s*=\s*" + LOCK + r"\s*;", body):
            from rs2v import match_brace
            end = match_brace(body, m.start())
            blk = body[m.start():end]
            if re.search(r"store\s*\.\s*put\s*\(\s*&?meta_key", blk) and re.search(r"store\s*\.\s*delete\s*\(", blk) and "WRITER_PREFIX" in blk:
                return True
        return False
    lock_item(1, "finish", finish_locked)
    lock_item(2, "delete_artifact", lambda: first_stmt_locks(find_fn(strip_comments(read(repo, "tensor_blob/src/integrity.rs")), "delete_artifact")[1]))

    def gc_cycle_locked():
        body = find_fn(gc, "gc_cycle")[1]
        m = re.search(r"for\s+chunk_key\s+in\s+[^{]+\{", body)
        return first_stmt_locks(body[m.end():])
    lock_item(3, "gc_cycle", gc_cycle_locked)
    lock_item(4, "full_gc", lambda: first_stmt_locks(find_fn(gc, "full_gc")[1]))
    lock_item(5, "repair", lambda: first_stmt_locks(find_fn(strip_comments(read(repo, "tensor_blob/src/integrity.rs")), "repair")[1]))
    lock_arms = "\n".join("  | %d => %s" % (i, "true" if locked.get(i) else "false") for i in range(6))

    text = HEADER + (
        "From NV.Common Require Import Base.\nOpen Scope N_scope.\n\n"
        "(* tensor_blob/src/gc.rs  gc_cycle: the test that guards store.delete *)\n"
        "Definition gen_collectable (refs created min_created : N) : bool :=\n  %s.\n"
        "(* gc_cycle: min_created *)\n"
        "Definition gen_min_created (now min_age : N) : N :=\n  %s.\n"
        "(* decrement_chunk_refs / increment_chunk_refs *)\n"
        "Definition gen_rdec (refs : N) : N :=\n  %s.\n"
        "Definition gen_rinc (refs : N) : N :=\n  %s.\n"
        "(* full_gc / integrity::repair also count the chunk keys registered by unfinished writers *)\n"
        "Definition gen_fgc_counts_writers : bool := %s.\n"
        "Definition gen_repair_counts_writers : bool := %s.\n"
        "(* does the function hold chunk_lock() over its read-modify-write of chunk records?\n"
        "   0 BlobWriter::store_chunk  1 BlobWriter::finish (publish)  2 delete_artifact  3 gc_cycle (per chunk)  4 full_gc  5 repair *)\n"
        "Definition gen_locked (f : N) : bool :=\n  match f with\n%s\n  | _ => false\n  end.\n"
        % (terms["collectable"], terms["min_created"], terms["rdec"], terms["rinc"],
           flags["fgc_counts_writers"], flags["repair_counts_writers"], lock_arms)
    )
    return text, items
