"""C20: codec items regenerated from the Rust sources.
   gen_dsub / gen_dadd   the arithmetic delta_encode / delta_decode use (tensor_compress/src/delta.rs)
   gen_varint_consts     (payload mask, bits per byte, continuation flag, shift guard)
   gen_v2_checks_serialized  does LengthDelimitedCodec::encode_v2 reject a serialized payload larger than
                         max_frame_length before compressing?  (tensor_chain/src/tcp/framing.rs)
   gen_flag_none / gen_flag_lz4 / gen_max_decompressed   (tensor_chain/src/tcp/compression.rs)"""
import os
import re
import sys

sys.path.insert(0, os.path.dirname(os.path.abspath(__file__)))
from rs2v import HEADER, Env, coq, find_const, find_fn, parse_expr, read, strip_comments  # noqa: E402


def generate(repo):
    items = {}
    out = [HEADER, "From NV.Common Require Import Base.\nOpen Scope N_scope.\n"]

    # ---- delta arithmetic
    dsub = "(next - prev)"           # default = saturating (N subtraction)
    dadd = "(N.min (cur + delta) 18446744073709551615)"
    try:
        src = strip_comments(read(repo, "tensor_compress/src/delta.rs"))
        _, body = find_fn(src, "delta_encode")
        m = re.search(r"\.push\(\s*((?:window|w)\[1\][^;]*)\)\s*;", body)
        if not m:
            raise KeyError("push(window[1]…) not found")
        e = parse_expr(m.group(1))
        name = "window" if "window" in m.group(1) else "w"
        dsub = coq(e, Env({name + "[1]": "next", name + "[0]": "prev"}))
        items["delta_sub"] = "translated"
    except Exception as ex:
        items["delta_sub"] = "miss:%s" % ex
    try:
        src = strip_comments(read(repo, "tensor_compress/src/delta.rs"))
        _, body = find_fn(src, "delta_decode")
        m = re.search(r"(?<!mut )\bcurrent\s*=\s*([^;]+);", body)
        if not m:
            raise KeyError("current = … not found")
        e = parse_expr(m.group(1))
        dadd = coq(e, Env({"current": "cur", "delta": "delta"}))
        items["delta_add"] = "translated"
    except Exception as ex:
        items["delta_add"] = "miss:%s" % ex
    out.append("(* tensor_compress/src/delta.rs: delta_encode pushes  next (-) prev ; delta_decode sets current := current (+) delta *)")
    out.append("Definition gen_dsub (next prev : N) : N := %s." % dsub)
    out.append("Definition gen_dadd (cur delta : N) : N := %s.\n" % dadd)

    # ---- varint constants
    consts = (127, 7, 128, 64)
    try:
        src = strip_comments(read(repo, "tensor_compress/src/delta.rs"))
        _, enc = find_fn(src, "varint_encode")
        _, dec = find_fn(src, "varint_decode")
        mask_e = int(re.search(r"v\s*&\s*(0x[0-9a-fA-F]+|\d+)", enc).group(1), 0)
        bits_e = int(re.search(r"v\s*>>=\s*(\d+)", enc).group(1))
        flag_e = int(re.search(r"byte\s*\|\s*(0x[0-9a-fA-F]+|\d+)", enc).group(1), 0)
        guard = int(re.search(r"shift\s*>=\s*(\d+)", dec).group(1))
        mask_d = int(re.search(r"byte\s*&\s*(0x7[fF]|127)", dec).group(1), 0)
        bits_d = int(re.search(r"shift\s*\+=\s*(\d+)", dec).group(1))
        flag_d = int(re.search(r"byte\s*&\s*(0x80|128)\s*==\s*0", dec).group(1), 0)
        if (mask_e, bits_e, flag_e) != (mask_d, bits_d, flag_d):
            raise KeyError("encoder and decoder constants differ: %r vs %r" % ((mask_e, bits_e, flag_e), (mask_d, bits_d, flag_d)))
        consts = (mask_e, bits_e, flag_e, guard)
        items["varint_consts"] = "translated"
    except Exception as ex:
        items["varint_consts"] = "miss:%s" % ex
    out.append("Definition gen_varint_consts : N * N * N * N := (%d, %d, %d, %d).\n" % consts)

    # ---- encode_v2: sender-side check on the serialized (uncompressed) size
    chk = "false"
    try:
        src = strip_comments(read(repo, "tensor_chain/src/tcp/framing.rs"))
        _, body = find_fn(src, "encode_v2")
        m = re.search(r"let\s+(\w+)\s*=\s*bitcode::serialize\(\s*msg\s*\)\s*\?\s*;", body)
        if not m:
            raise KeyError("serialize binding not found")
        var = m.group(1)
        pre = body[m.end():]
        cut = pre.find("compress(")
        pre = pre if cut < 0 else pre[:cut]
        # an early return of MessageTooLarge guarded by  <var>.len() > self.max_frame_length  (or >=, or flipped)
        pat = r"if\s+(?:%s\.len\(\)\s*>=?\s*self\.max_frame_length|self\.max_frame_length\s*<=?\s*%s\.len\(\))\s*\{[^}]*MessageTooLarge" % (var, var)
        chk = "true" if re.search(pat, pre, re.S) else "false"
        items["v2_checks_serialized"] = "translated"
    except Exception as ex:
        items["v2_checks_serialized"] = "miss:%s" % ex
    out.append("Definition gen_v2_checks_serialized : bool := %s.\n" % chk)

    # ---- encode_v2: sender-side check on the frame content (flags byte + payload) actually sent
    chk2 = "false"
    try:
        src = strip_comments(read(repo, "tensor_chain/src/tcp/framing.rs"))
        _, body = find_fn(src, "encode_v2")
        m = re.search(r"let\s+(\w+)\s*=\s*1\s*\+\s*payload\.len\(\)\s*;", body)
        if not m:
            raise KeyError("frame content length binding not found")
        var = m.group(1)
        post = body[m.end():]
        cut = post.find("length_prefix(")
        post = post if cut < 0 else post[:cut]
        pat = r"if\s+(?:%s\s*>\s*self\.max_frame_length|self\.max_frame_length\s*<\s*%s)\s*\{[^}]*MessageTooLarge" % (var, var)
        chk2 = "true" if re.search(pat, post, re.S) else "false"
        items["v2_checks_frame"] = "translated"
    except Exception as ex:
        items["v2_checks_frame"] = "miss:%s" % ex
    out.append("Definition gen_v2_checks_frame : bool := %s.\n" % chk2)

    # ---- EmbeddingValidator::validate: which structural checks a received sparse vector must pass
    vc = {"lens": "false", "bounds_all": "false", "sorted": "false"}
    try:
        src = strip_comments(read(repo, "tensor_chain/src/message_validation.rs"))
        sub = src[src.index("impl EmbeddingValidator"):]
        _, body = find_fn(sub, "validate")
        err = r"\s*\{\s*return\s+Err\("
        if re.search(r"if\s+embedding\.positions\(\)\.len\(\)\s*!=\s*embedding\.values\(\)\.len\(\)" + err, body):
            vc["lens"] = "true"
        m = re.search(r"let\s+(\w+)\s*=\s*embedding\.positions\(\)\s*;\s*for\s*\(\s*(\w+)\s*,\s*&(\w+)\s*\)\s+in\s+\1\.iter\(\)\.enumerate\(\)\s*\{", body)
        if m:
            ps, i, pos = m.group(1), m.group(2), m.group(3)
            loop = body[m.end():]
            if re.search(r"if\s+%s\s+as\s+usize\s*>=\s*dim" % pos + err, loop):
                vc["bounds_all"] = "true"
            if re.search(r"if\s+%s\s*>\s*0\s*&&\s*%s\[\s*%s\s*-\s*1\s*\]\s*>=\s*%s" % (i, ps, i, pos) + err, loop):
                vc["sorted"] = "true"
        else:
            # other loop shapes: only a per-pair ordering test is recognised (bounds then cover pairs' second element only)
            if re.search(r"\.windows\(\s*2\s*\)", body) and re.search(r"if\s+\w+\s*>=\s*\w+" + err, body):
                vc["sorted"] = "true"
        items["validator_checks"] = "translated"
    except Exception as ex:
        items["validator_checks"] = "miss:%s" % ex
    out.append("Definition gen_vc_lens : bool := %s.\nDefinition gen_vc_bounds_all : bool := %s.\nDefinition gen_vc_sorted : bool := %s.\n"
               % (vc["lens"], vc["bounds_all"], vc["sorted"]))

    # ---- CompositeValidator::validate_block_request: range order test and block count (machine arithmetic)
    border = "false"
    bcount = "(N.min ((to - from_) + 1) 18446744073709551615)"
    try:
        src = strip_comments(read(repo, "tensor_chain/src/message_validation.rs"))
        _, body = find_fn(src, "validate_block_request")
        if re.search(r"if\s+msg\.to_height\s*<\s*msg\.from_height\s*\{\s*return\s+Err\(", body):
            border = "true"
        m = re.search(r"let\s+(\w+)\s*=\s*([^;]+);\s*if\s+\1\s*>\s*self\.config\.max_blocks_per_request\s*\{\s*return\s+Err\(", body, re.S)
        if not m:
            raise KeyError("block count binding / limit test not found")
        bcount = coq(parse_expr(m.group(2)), Env({"msg.to_height": "to", "msg.from_height": "from_"}, wrap=True))
        items["block_request"] = "translated"
    except Exception as ex:
        items["block_request"] = "miss:%s" % ex
    out.append("Definition gen_block_order_checked : bool := %s.\nDefinition gen_block_count (from_ to : N) : N := %s.\n" % (border, bcount))

    # ---- compression constants
    vals = {"none": 0, "lz4": 1, "maxd": 16 * 1024 * 1024}
    try:
        src = strip_comments(read(repo, "tensor_chain/src/tcp/compression.rs"))
        vals["none"] = int(find_const(src, "NONE"), 0)
        vals["lz4"] = int(find_const(src, "LZ4"), 0)
        maxd = find_const(src, "MAX_DECOMPRESSED_SIZE")
        vals["maxd"] = eval(maxd, {"__builtins__": {}})  # "16 * 1024 * 1024"
        items["compression_consts"] = "translated"
    except Exception as ex:
        items["compression_consts"] = "miss:%s" % ex
    out.append("Definition gen_flag_none : N := %d.\nDefinition gen_flag_lz4 : N := %d.\nDefinition gen_max_decompressed : N := %d.\n" % (vals["none"], vals["lz4"], vals["maxd"]))
    return "\n".join(out), items
