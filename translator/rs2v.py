#!/usr/bin/env python3
"""rs2v.py -- small Rust-subset -> Gallina translator (the "regenerated on every run" tie).

It locates a named item in a named file of /repo's *working tree*, parses a restricted
expression grammar and emits Gallina into /verif/coq/gen/Gen_<ID>.v, plus a sidecar
Gen_<ID>.json saying, per item, "translated" or "miss:<reason>".  On a miss the hand-written
default is emitted instead (the tie for that item then rests on the correspondence check only;
the evidence file says so).  Only what is listed in DESIGN.md section 2.3 is translated.

Usage: rs2v.py <ID> [--repo /repo] [--out /verif/coq/gen]
"""
import json
import os
import re
import sys

# ----------------------------------------------------------------------------- source access


def read(repo, rel):
    with open(os.path.join(repo, rel), encoding="utf-8") as f:
        return f.read()


def strip_comments(src):
    out = []
    i = 0
    n = len(src)
    while i < n:
        c = src[i]
        if src.startswith("//", i):
            j = src.find("\n", i)
            i = n if j < 0 else j
        elif src.startswith("/*", i):
            j = src.find("*/", i + 2)
            i = n if j < 0 else j + 2
        elif c == '"':
            j = i + 1
            while j < n and src[j] != '"':
                j += 2 if src[j] == "\\" else 1
            out.append(src[i : j + 1])
            i = j + 1
        else:
            out.append(c)
            i += 1
    return "".join(out)


def match_brace(src, i):
    """src[i] == '{' -> index of the matching '}'"""
    depth = 0
    n = len(src)
    j = i
    while j < n:
        c = src[j]
        if c == '"':
            j += 1
            while j < n and src[j] != '"':
                j += 2 if src[j] == "\\" else 1
        elif c == "'" and j + 2 < n and (src[j + 2] == "'" or (src[j + 1] == "\\" and src.find("'", j + 2) - j <= 4)):
            j = src.find("'", j + 2)
        elif c == "{":
            depth += 1
        elif c == "}":
            depth -= 1
            if depth == 0:
                return j
        j += 1
    raise ValueError("unbalanced braces")


def find_fn(src, name, after=None):
    """Return (signature, body) of `fn name`; body excludes the outer braces. `after` = a
    regex that must match before the function (e.g. 'impl GossipNodeState')."""
    start = 0
    if after:
        m = re.search(after, src)
        if not m:
            raise KeyError("anchor %r not found" % after)
        start = m.end()
    m = re.compile(r"\bfn\s+" + re.escape(name) + r"\b").search(src, start)
    if not m:
        raise KeyError("fn %s not found" % name)
    i = src.index("{", m.end())
    # skip where-clauses/generic braces: take the first '{' after the closing ')' of params
    j = match_brace(src, i)
    return src[m.start() : i].strip(), src[i + 1 : j]


def find_const(src, name):
    m = re.search(r"\bconst\s+" + re.escape(name) + r"\s*:\s*[^=]+=\s*([^;]+);", src)
    if not m:
        raise KeyError("const %s not found" % name)
    return m.group(1).strip()


# ----------------------------------------------------------------------------- expression parser

TOKEN_RE = re.compile(
    r"\s*(?:(?P<num>0x[0-9a-fA-F_]+|\d[\d_]*)(?:u8|u16|u32|u64|usize|i32|i64)?"
    r"|(?P<id>[A-Za-z_][A-Za-z0-9_]*(?:::[A-Za-z_][A-Za-z0-9_]*)*)"
    r"|(?P<op>==|!=|<=|>=|&&|\|\||<<|>>|->|=>|[-+*/%<>!&|^(){}\[\],.;:=]))"
)


def tokenize(text):
    toks = []
    pos = 0
    text = text.strip()
    while pos < len(text):
        m = TOKEN_RE.match(text, pos)
        if not m or m.end() == pos:
            raise SyntaxError("cannot tokenize at %r" % text[pos : pos + 20])
        if m.group("num") is not None:
            toks.append(("num", int(m.group("num").replace("_", ""), 0)))
        elif m.group("id") is not None:
            toks.append(("id", m.group("id")))
        else:
            toks.append(("op", m.group("op")))
        pos = m.end()
        while pos < len(text) and text[pos].isspace():
            pos += 1
    return toks


BIN_PREC = {
    "||": 1,
    "&&": 2,
    "==": 3, "!=": 3, "<": 3, ">": 3, "<=": 3, ">=": 3,
    "|": 4, "^": 5, "&": 6, "<<": 7, ">>": 7,
    "+": 8, "-": 8, "*": 9, "/": 9, "%": 9,
}


class P:
    """Recursive-descent parser for the expression subset. AST nodes are tuples."""

    def __init__(self, toks):
        self.t = toks
        self.i = 0

    def peek(self):
        return self.t[self.i] if self.i < len(self.t) else ("eof", None)

    def eat(self, kind=None, val=None):
        k, v = self.peek()
        if (kind and k != kind) or (val is not None and v != val):
            raise SyntaxError("expected %s %s, got %s %s" % (kind, val, k, v))
        self.i += 1
        return v

    def block(self):
        """'{' [let x = e;]* expr '}' -> expr with lets"""
        self.eat("op", "{")
        lets = []
        while self.peek() == ("id", "let"):
            self.eat()
            if self.peek() == ("id", "mut"):
                self.eat()
            name = self.eat("id")
            if self.peek() == ("op", ":"):
                self.eat()
                self.eat("id")
            self.eat("op", "=")
            e = self.expr()
            self.eat("op", ";")
            lets.append((name, e))
        if self.peek() == ("id", "return"):
            self.eat()
        e = self.expr()
        if self.peek() == ("op", ";"):
            self.eat()
        self.eat("op", "}")
        for name, v in reversed(lets):
            e = ("let", name, v, e)
        return e

    def expr(self, minp=0):
        lhs = self.unary()
        while True:
            k, v = self.peek()
            if k == "op" and v in BIN_PREC and BIN_PREC[v] > minp:
                self.eat()
                rhs = self.expr(BIN_PREC[v])
                lhs = ("bin", v, lhs, rhs)
            elif k == "id" and v == "as":
                self.eat()
                ty = self.eat("id")
                lhs = ("cast", ty, lhs)
            else:
                return lhs

    def unary(self):
        k, v = self.peek()
        if k == "op" and v == "!":
            self.eat()
            return ("not", self.unary())
        if k == "op" and v in ("&", "*"):
            self.eat()
            return self.unary()
        if k == "op" and v == "-":
            self.eat()
            return ("neg", self.unary())
        return self.postfix(self.atom())

    def atom(self):
        k, v = self.peek()
        if k == "num":
            self.eat()
            return ("num", v)
        if k == "op" and v == "(":
            self.eat()
            items = [self.expr()]
            while self.peek() == ("op", ","):
                self.eat()
                if self.peek() == ("op", ")"):
                    break
                items.append(self.expr())
            self.eat("op", ")")
            return items[0] if len(items) == 1 else ("tuple", items)
        if k == "id" and v == "if":
            self.eat()
            c = self.expr()
            a = self.block()
            self.eat("id", "else")
            if self.peek() == ("id", "if"):
                b = self.atom()
            else:
                b = self.block()
            return ("if", c, a, b)
        if k == "id" and v in ("true", "false"):
            self.eat()
            return ("bool", v == "true")
        if k == "id":
            self.eat()
            return ("var", v)
        if k == "op" and v == "{":
            return self.block()
        raise SyntaxError("unexpected token %s %s" % (k, v))

    def postfix(self, e):
        while True:
            k, v = self.peek()
            if k == "op" and v == ".":
                self.eat()
                kk, name = self.peek()
                if kk == "num":
                    self.eat()
                    e = ("field", e, str(name))
                    continue
                name = self.eat("id")
                if self.peek() == ("op", "("):
                    self.eat()
                    args = []
                    while self.peek() != ("op", ")"):
                        args.append(self.expr())
                        if self.peek() == ("op", ","):
                            self.eat()
                    self.eat("op", ")")
                    e = ("call", name, e, args)
                else:
                    e = ("field", e, name)
            elif k == "op" and v == "[":
                self.eat()
                ix = self.expr()
                self.eat("op", "]")
                e = ("index", e, ix)
            elif k == "op" and v == "(" and e[0] == "var":
                self.eat()
                args = []
                while self.peek() != ("op", ")"):
                    args.append(self.expr())
                    if self.peek() == ("op", ","):
                        self.eat()
                self.eat("op", ")")
                e = ("fcall", e[1], args)
            else:
                return e


def parse_expr(text):
    p = P(tokenize(text))
    e = p.expr()
    if p.peek()[0] != "eof":
        raise SyntaxError("trailing tokens: %r" % (p.t[p.i :][:5],))
    return e


def parse_body(text):
    """function body = block contents"""
    p = P(tokenize("{" + text + "}"))
    e = p.block()
    if p.peek()[0] != "eof":
        raise SyntaxError("trailing tokens")
    return e


# ----------------------------------------------------------------------------- Gallina printer

U64 = 2 ** 64


class Env:
    """maps Rust paths to Gallina terms.  paths: 'self.incarnation' -> '(inc a)'."""

    def __init__(self, paths, width=U64, wrap=False):
        self.paths = dict(paths)
        self.width = width
        # wrap=True: plain + - * are the machine's (release-build) wrapping operations at `width`;
        # wrap=False: unbounded N (subtraction truncates at 0)
        self.wrap = wrap


def path_of(e):
    if e[0] == "var":
        return e[1]
    if e[0] == "index" and e[2][0] == "num":
        p = path_of(e[1])
        return None if p is None else "%s[%d]" % (p, e[2][1])
    if e[0] == "field":
        p = path_of(e[1])
        return None if p is None else p + "." + e[2]
    return None


def coq(e, env):
    """N-valued or bool-valued Gallina term for AST e (types are not tracked: comparisons
    yield bool, arithmetic yields N; the generated file is type-checked by Coq)."""
    k = e[0]
    if k == "num":
        return "%d" % e[1]
    if k == "bool":
        return "true" if e[1] else "false"
    if k in ("var", "field", "index"):
        p = path_of(e)
        if p in env.paths:
            return env.paths[p]
        raise KeyError("unmapped path %s" % p)
    if k == "not":
        return "(negb %s)" % coq(e[1], env)
    if k == "cast":
        return coq(e[2], env)
    if k == "let":
        return "(let %s := %s in %s)" % (e[1], coq(e[2], Env(env.paths, env.width, env.wrap)), coq(e[3], Env({**env.paths, e[1]: e[1]}, env.width, env.wrap)))
    if k == "if":
        return "(if %s then %s else %s)" % (coq(e[1], env), coq(e[2], env), coq(e[3], env))
    if k == "bin":
        op, a, b = e[1], e[2], e[3]
        if a[0] == "tuple" and b[0] == "tuple" and op in ("<", ">", "<=", ">=", "==", "!="):
            return coq(lex_cmp(op, a[1], b[1]), env)
        A, B = coq(a, env), coq(b, env)
        table = {
            "==": "(N.eqb %s %s)", "!=": "(negb (N.eqb %s %s))",
            "<": "(N.ltb %s %s)", "<=": "(N.leb %s %s)",
            "&&": "(andb %s %s)", "||": "(orb %s %s)",
            "+": "(%s + %s)", "*": "(%s * %s)", "/": "(%s / %s)", "%%": "(%s mod %s)",
            "-": "(%s - %s)",
        }
        if env.wrap and op in ("+", "-", "*"):
            w = env.width
            if op == "+":
                return "((%s + %s) mod %d)" % (A, B, w)
            if op == "*":
                return "((%s * %s) mod %d)" % (A, B, w)
            return "((%s + %d - %s) mod %d)" % (A, w, B, w)
        if op == ">":
            return "(N.ltb %s %s)" % (B, A)
        if op == ">=":
            return "(N.leb %s %s)" % (B, A)
        if op == "%":
            return "(%s mod %s)" % (A, B)
        if op in table:
            return table[op] % (A, B)
        raise KeyError("operator %s" % op)
    if k == "call":
        name, recv, args = e[1], e[2], e[3]
        rp = path_of(recv)
        if not args and rp is not None and (rp + "." + name + "()") in env.paths:
            return env.paths[rp + "." + name + "()"]
        R = coq(recv, env)
        A = [coq(x, env) for x in args]
        w = env.width
        if name == "max":
            return "(N.max %s %s)" % (R, A[0])
        if name == "min":
            return "(N.min %s %s)" % (R, A[0])
        if name == "saturating_sub":
            return "(%s - %s)" % (R, A[0])  # N subtraction truncates at 0
        if name == "saturating_add":
            return "(N.min (%s + %s) %d)" % (R, A[0], w - 1)
        if name == "wrapping_sub":
            return "((%s + %d - %s) mod %d)" % (R, w, A[0], w)
        if name == "wrapping_add":
            return "((%s + %s) mod %d)" % (R, A[0], w)
        if name in ("clone", "copied", "into"):
            return R
        raise KeyError("method %s" % name)
    raise KeyError("node %s" % k)


def lex_cmp(op, xs, ys):
    """lexicographic tuple comparison as nested if/else AST"""
    if len(xs) != len(ys) or not xs:
        raise KeyError("tuple arity")
    if op in ("==", "!="):
        e = ("bin", "==", xs[0], ys[0])
        for x, y in zip(xs[1:], ys[1:]):
            e = ("bin", "&&", e, ("bin", "==", x, y))
        return e if op == "==" else ("not", e)
    if len(xs) == 1:
        return ("bin", op, xs[0], ys[0])
    return ("if", ("bin", "==", xs[0], ys[0]), lex_cmp(op, xs[1:], ys[1:]),
            ("bin", op.rstrip("="), xs[0], ys[0]))


# ----------------------------------------------------------------------------- per-property items

HEADER = "(* GENERATED by /verif/translator/rs2v.py from /repo's working tree -- do not edit *)\n"


def load_generators():
    """per-property generators live in translator/gen_<ID>.py, each with generate(repo) -> (text, items)"""
    import importlib.util
    gens = {}
    d = os.path.dirname(os.path.abspath(__file__))
    for f in sorted(os.listdir(d)):
        if f.startswith("gen_") and f.endswith(".py"):
            spec = importlib.util.spec_from_file_location(f[:-3], os.path.join(d, f))
            m = importlib.util.module_from_spec(spec)
            spec.loader.exec_module(m)
            gens[f[4:-3]] = m.generate
    return gens




def main(argv):
    if len(argv) < 2:
        print(__doc__)
        return 2
    pid = argv[1]
    repo = "/repo"
    out = "/verif/coq/gen"
    if "--repo" in argv:
        repo = argv[argv.index("--repo") + 1]
    if "--out" in argv:
        out = argv[argv.index("--out") + 1]
    os.makedirs(out, exist_ok=True)
    GENERATORS = load_generators()
    ids = sorted(GENERATORS) if pid == "all" else [pid]
    for i in ids:
        if i not in GENERATORS:
            continue
        text, items = GENERATORS[i](repo)
        path = os.path.join(out, "Gen_%s.v" % i)
        old = open(path).read() if os.path.exists(path) else None
        if old != text:  # keep mtime when unchanged so make does not rebuild
            with open(path, "w") as f:
                f.write(text)
        with open(os.path.join(out, "Gen_%s.json" % i), "w") as f:
            json.dump({"items": items}, f, indent=1)
    return 0


if __name__ == "__main__":
    sys.exit(main(sys.argv))
