"""Driver library for /verif/check: translator -> Coq build + gates -> harness -> model evaluation
inside coqc (vm_compute) -> verdict -> evidence.  See DESIGN.md section 2."""
import concurrent.futures
import fcntl
import glob
import hashlib
import json
import os
import re
import shutil
import subprocess
import sys
import time

ROOT = os.path.dirname(os.path.dirname(os.path.abspath(__file__)))
COQ = os.path.join(ROOT, "coq")
CACHE = os.path.join(ROOT, ".cache")
TARGET = os.path.join(CACHE, "target")
REPO = os.environ.get("NV_REPO", "/repo")
GUARD = "neumann_verif"

FORBIDDEN = re.compile(
    r"\b(Admitted|admit|Axiom|Axioms|Parameter|Parameters|Conjecture|Conjectures|Admit\s+Obligations|"
    r"Unset\s+Guard\s+Checking|Unset\s+Positivity\s+Checking|Unset\s+Universe\s+Checking|bypass_check|"
    r"type-in-type|impredicative-set|native_compute)\b"
)
# axioms a theorem may depend on (all declared by the standard library itself); anything else fails
AXIOM_ALLOW = {
    "Coq.Logic.FunctionalExtensionality.functional_extensionality_dep",
    "functional_extensionality_dep",
}

ENV = dict(os.environ)
ENV.update({"CARGO_NET_OFFLINE": "true", "GOPROXY": "off", "PIP_NO_INDEX": "1"})


def sh(cmd, cwd=None, timeout=None, env=None):
    t0 = time.time()
    try:
        p = subprocess.run(cmd, cwd=cwd, timeout=timeout, env=env or ENV, stdout=subprocess.PIPE,
                           stderr=subprocess.STDOUT, shell=isinstance(cmd, str))
        return p.returncode, p.stdout.decode("utf-8", "replace"), time.time() - t0
    except subprocess.TimeoutExpired as e:
        out = (e.stdout or b"").decode("utf-8", "replace")
        return 124, out + "\n[timeout after %ss]" % timeout, time.time() - t0


class Lock:
    """flock on a file under .cache so concurrent checks do not race on make/cargo."""

    def __init__(self, name):
        os.makedirs(CACHE, exist_ok=True)
        self.path = os.path.join(CACHE, name + ".lock")

    def __enter__(self):
        self.f = open(self.path, "w")
        fcntl.flock(self.f, fcntl.LOCK_EX)
        return self

    def __exit__(self, *a):
        fcntl.flock(self.f, fcntl.LOCK_UN)
        self.f.close()


# ----------------------------------------------------------------------------------- Coq side

def write_coqproject():
    files = []
    for d in sorted(os.listdir(COQ)):
        p = os.path.join(COQ, d)
        if os.path.isdir(p):
            for f in sorted(os.listdir(p)):
                if f.endswith(".v") and not f.startswith("cases_"):
                    files.append("%s/%s" % (d, f))
    text = "-Q . NV\n-arg -w -arg -notation-overridden,-deprecated-hint-without-locality,-deprecated-instance-without-locality\n" + "\n".join(files) + "\n"
    path = os.path.join(COQ, "_CoqProject")
    old = open(path).read() if os.path.exists(path) else None
    changed = old != text
    if changed:
        with open(path, "w") as f:
            f.write(text)
    if changed or not os.path.exists(os.path.join(COQ, "Makefile")):
        rc, out, _ = sh(["coq_makefile", "-f", "_CoqProject", "-o", "Makefile"], cwd=COQ, timeout=120)
        if rc != 0:
            raise RuntimeError("coq_makefile failed:\n" + out)


def run_translator(pid):
    """regenerate coq/gen/Gen_<pid>.v from REPO's working tree; returns the sidecar dict"""
    rc, out, _ = sh([sys.executable, os.path.join(ROOT, "translator", "rs2v.py"), pid, "--repo", REPO,
                     "--out", os.path.join(COQ, "gen")], timeout=120)
    if rc != 0:
        raise RuntimeError("translator failed:\n" + out)
    side = os.path.join(COQ, "gen", "Gen_%s.json" % pid)
    if os.path.exists(side):
        return json.load(open(side))
    return {"items": {}}


def coq_make(targets, timeout=1500, jobs=16):
    """make the given .vo targets (relative to coq/). Returns (ok, log)."""
    # the lock only guards (re)generation of _CoqProject/Makefile; the per-property targets of
    # different checks are disjoint apart from already-built common files, so make runs unlocked
    with Lock("coq"):
        write_coqproject()
    rc, out, dt = sh(["make", "-j%d" % jobs] + targets, cwd=COQ, timeout=timeout)
    return rc == 0, out


def coq_file_failed(log):
    m = re.findall(r'File "\./([^"]+)", line (\d+)', log)
    return ["%s:%s" % x for x in m]


def print_assumptions(pid, props_rel):
    """Re-run coqc on the Props file to capture its Print Assumptions output.
    Returns (ok, {theorem: [axioms]}, raw)."""
    work = os.path.join(ROOT, "work", pid, "props")
    os.makedirs(work, exist_ok=True)
    rc, out, _ = sh(["coqc", "-q", "-Q", ".", "NV", "-w", "none", props_rel, "-o", os.path.join(work, os.path.basename(props_rel) + "o")],
                    cwd=COQ, timeout=600)
    thms = re.findall(r"^\s*Print Assumptions\s+([A-Za-z0-9_']+)\s*\.", open(os.path.join(COQ, props_rel)).read(), re.M)
    blocks = re.split(r"(?m)^(?=Closed under the global context|Axioms:)", out)
    blocks = [b for b in blocks if b.startswith("Closed under") or b.startswith("Axioms:")]
    res = {}
    ok = rc == 0 and len(blocks) == len(thms)
    for name, blk in zip(thms, blocks):
        if blk.startswith("Closed under"):
            res[name] = []
        else:
            axs = re.findall(r"(?m)^([A-Za-z_][A-Za-z0-9_.']*)\s*:", blk[len("Axioms:"):])
            res[name] = axs
            for a in axs:
                if a not in AXIOM_ALLOW and a.split(".")[-1] not in AXIOM_ALLOW:
                    ok = False
    return ok, res, out


def forbidden_scan(dirs):
    """grep the development for forbidden vernacular (comments stripped)."""
    bad = []
    for d in dirs:
        for path in sorted(glob.glob(os.path.join(COQ, d, "*.v"))):
            src = open(path).read()
            src = strip_coq_comments(src)
            for i, line in enumerate(src.split("\n"), 1):
                m = FORBIDDEN.search(line)
                if m:
                    bad.append("%s:%d:%s" % (os.path.relpath(path, COQ), i, m.group(0)))
                if re.match(r"\s*(Variable|Variables|Hypothesis|Hypotheses|Context)\b", line):
                    # allowed only inside a Section: checked coarsely by counting Section/End nesting
                    pass
    return bad


def strip_coq_comments(src):
    out = []
    depth = 0
    i = 0
    n = len(src)
    instr = False
    while i < n:
        if depth == 0 and src[i] == '"':
            instr = not instr
            out.append(src[i])
            i += 1
        elif not instr and src.startswith("(*", i):
            depth += 1
            i += 2
        elif not instr and depth > 0 and src.startswith("*)", i):
            depth -= 1
            i += 2
        else:
            if depth == 0:
                out.append(src[i])
            elif src[i] == "\n":
                out.append("\n")
            i += 1
    return "".join(out)


def section_discipline(dirs):
    """Variable/Hypothesis/Context outside any Section would declare an axiom: reject."""
    bad = []
    for d in dirs:
        for path in sorted(glob.glob(os.path.join(COQ, d, "*.v"))):
            src = strip_coq_comments(open(path).read())
            depth = 0
            for i, line in enumerate(src.split("\n"), 1):
                if re.match(r"\s*(Section|Module Type)\s+\w+", line):
                    depth += 1
                elif re.match(r"\s*End\s+\w+\s*\.", line) and depth > 0:
                    depth -= 1
                elif re.match(r"\s*(Variable|Variables|Hypothesis|Hypotheses)\b", line) and depth == 0:
                    bad.append("%s:%d:%s" % (os.path.relpath(path, COQ), i, line.strip()[:60]))
    return bad


# ----------------------------------------------------------------------------------- harness side

STANDALONE_TAIL = """
# --- appended by vlib/core.py: every harness crate is a standalone package (own empty workspace),
# so a half-written crate of another property can never break this build; the target dir is shared.
[workspace]

[profile.dev]
opt-level = 1
debug = 0
overflow-checks = true

[profile.release]
opt-level = 2
debug = 0
overflow-checks = true
"""


def _standalone(cdir):
    """normalise harness/<cdir>/Cargo.toml to a standalone package (idempotent)"""
    path = os.path.join(cdir, "Cargo.toml")
    s = open(path).read()
    t = s.replace("version.workspace = true", 'version = "0.1.0"').replace("edition.workspace = true", 'edition = "2021"')
    if "\n[workspace]" not in t:
        t = t.rstrip("\n") + "\n" + STANDALONE_TAIL
    if t != s:
        with open(path, "w") as f:
            f.write(t)


def harness_build(crate, release=False, timeout=3000):
    """crate 'nvh_c17' lives in harness/c17 (standalone package; shared target dir)."""
    cdir = os.path.join(ROOT, "harness", crate.replace("nvh_", ""))
    with Lock("cargo"):
        _standalone(cdir)
        src_lock = os.path.join(REPO, "Cargo.lock")
        dst_lock = os.path.join(cdir, "Cargo.lock")
        if not os.path.exists(dst_lock):
            shutil.copyfile(src_lock, dst_lock)
        env = dict(ENV)
        env["CARGO_TARGET_DIR"] = TARGET
        env["RUSTFLAGS"] = "--cfg %s" % GUARD
        cmd = ["cargo", "build", "--offline", "-q"] + (["--release"] if release else [])
        rc, out, dt = sh(cmd, cwd=cdir, timeout=timeout, env=env)
        if rc != 0 and ("failed to select a version" in out or "lock file" in out or "needs to be updated" in out):
            shutil.copyfile(src_lock, dst_lock)
            rc, out, dt = sh(cmd, cwd=cdir, timeout=timeout, env=env)
    return rc == 0, out, os.path.join(TARGET, "release" if release else "debug", crate)


def harness_run(binary, pid, seed, tier, outdir, extra=(), timeout=3000):
    if os.path.isdir(outdir):
        shutil.rmtree(outdir)
    os.makedirs(outdir)
    rc, out, dt = sh([binary, "--seed", str(seed), "--tier", tier, "--out", outdir] + list(extra), timeout=timeout)
    return rc, out


# ----------------------------------------------------------------------------------- model evaluation

def eval_cases(pid, kind, header, case_type, check_fn, lines, workdir, shard=250, jobs=16, timeout=900):
    """Evaluate check_fn on every case inside coqc (vm_compute). Returns a list of verdict ints
    (None where evaluation failed) and a list of error strings."""
    shards = [lines[i:i + shard] for i in range(0, len(lines), shard)]
    verdicts = [None] * len(lines)
    errors = []

    def one(si):
        name = "cases_%s_%s_%d" % (pid, kind, si)
        path = os.path.join(workdir, name + ".v")
        with open(path, "w") as f:
            f.write(header + "\n")
            f.write("Definition cases : list (%s) := [\n" % case_type)
            f.write(";\n".join(shards[si]))
            f.write("\n].\n")
            f.write("Eval vm_compute in (map (%s) cases).\n" % check_fn)
        rc, out, dt = sh(["coqc", "-q", "-noglob", "-w", "none", "-Q", COQ, "NV", path, "-o", os.path.join(workdir, name + ".vo")],
                         cwd=workdir, timeout=timeout)
        return si, rc, out

    with concurrent.futures.ThreadPoolExecutor(max_workers=jobs) as ex:
        for si, rc, out in ex.map(one, range(len(shards))):
            if rc != 0:
                errors.append("shard %d of %s: coqc rc=%d: %s" % (si, kind, rc, out[-600:]))
                continue
            m = re.search(r"=\s*\[(.*?)\](?:%N)?\s*:\s*list N", out, re.S)
            if not m:
                if re.search(r"=\s*\[\s*\]", out):
                    continue
                errors.append("shard %d of %s: cannot parse coqc output: %s" % (si, kind, out[-300:]))
                continue
            vals = [int(x) for x in re.findall(r"\d+", m.group(1))]
            if len(vals) != len(shards[si]):
                errors.append("shard %d of %s: %d verdicts for %d cases" % (si, kind, len(vals), len(shards[si])))
                continue
            for j, v in enumerate(vals):
                verdicts[si * shard + j] = v
    return verdicts, errors


# ----------------------------------------------------------------------------------- findings file

def load_known(pid):
    """known_findings.txt lines:  known: property=<id> class=<name> <free text>
                                   fixed: property=<id> <commit> <what failed>   (suppresses nothing)"""
    known = {}
    path = os.path.join(ROOT, "known_findings.txt")
    if not os.path.exists(path):
        return known
    for line in open(path):
        line = line.strip()
        m = re.match(r"known:\s+property=(\S+)\s+class=(\S+)\s*(.*)", line)
        if m and m.group(1) == pid:
            known[m.group(2)] = m.group(3)
    return known


def write_json(path, obj):
    os.makedirs(os.path.dirname(path), exist_ok=True)
    tmp = path + ".tmp"
    with open(tmp, "w") as f:
        json.dump(obj, f, indent=1, sort_keys=False)
        f.write("\n")
    os.replace(tmp, path)


def sha(path):
    h = hashlib.sha256()
    with open(path, "rb") as f:
        h.update(f.read())
    return h.hexdigest()[:16]
