"""The verdict flow shared by all properties (DESIGN.md 2.5)."""
import json
import os
import re
import sys
import time

from . import core
from .props import PROPS

V_OK, V_MISMATCH, V_VIOLATION = 0, 1, 2


def log(msg):
    print(msg, flush=True)


def run_check(pid, tier, seed, replay=None):
    t0 = time.time()
    cfg = PROPS[pid]
    work = os.path.join(core.ROOT, "work", pid)
    os.makedirs(work, exist_ok=True)
    known = core.load_known(pid)
    ev = {
        "property_id": pid, "tier": tier, "seed": seed, "level": cfg.get("level", "proof"),
        "coverage": {}, "assumptions": list(cfg.get("assumptions", [])), "wall_s": 0.0, "violations": 0,
    }
    cov = ev["coverage"]
    problems = []          # reasons proofs_ok / tie_ok are false
    violations = []        # (class_or_None, description, replay_obj)
    known_hits = {}        # class -> [count, first description]

    # 1. translator ---------------------------------------------------------------------------
    gen_items = {}
    if cfg.get("gen"):
        try:
            gen_items = core.run_translator(pid).get("items", {})
        except Exception as ex:  # translator crash = translator miss for all items
            gen_items = {"*": "miss:translator crashed: %s" % ex}
    cov["translator_items"] = gen_items
    misses = [k for k, v in gen_items.items() if not str(v).startswith("translated")]
    if misses:
        ev["assumptions"].append("translator miss for %s: tie for these items rests on the correspondence check only" % ", ".join(misses))

    # 2. model + proofs ---------------------------------------------------------------------------
    ok_run, log_run = core.coq_make(cfg["run_targets"])
    if not ok_run:
        problems.append({"kind": "model-build", "what": "executable model does not compile", "where": core.coq_file_failed(log_run), "log": log_run[-1500:]})
    ok_proof, log_proof = core.coq_make(cfg["proof_targets"])
    if not ok_proof:
        failed = core.coq_file_failed(log_proof)
        problems.append({"kind": "proof", "what": "proof obligation no longer checks", "where": failed, "log": log_proof[-1500:]})
    bad_tokens = core.forbidden_scan(cfg["dirs"] + ["gen"]) + core.section_discipline(cfg["dirs"] + ["gen"])
    if bad_tokens:
        problems.append({"kind": "gate", "what": "forbidden vernacular in the development", "where": bad_tokens})
    assumptions = {}
    if ok_proof:
        ok_ass, assumptions, raw = core.print_assumptions(pid, cfg["props"])
        if not ok_ass:
            problems.append({"kind": "gate", "what": "Print Assumptions reports axioms outside the allow-list (or could not be read)", "where": [json.dumps(assumptions)], "log": raw[-800:]})
    n_thm = len(assumptions) if assumptions else len(re.findall(r"(?m)^Theorem\s", open(os.path.join(core.COQ, cfg["props"])).read()))
    n_gen = len(cfg.get("gen_obligations", []))
    cov["obligations"] = n_thm + n_gen
    if ok_proof:
        cov["discharged"] = n_thm + n_gen
    else:
        cov["discharged_count"] = 0   # (schema: a present "discharged" must be >= 1)
    cov["theorems"] = sorted(assumptions.keys()) if assumptions else []
    cov["per_run_obligations"] = cfg.get("gen_obligations", [])
    cov["axioms"] = {k: v for k, v in assumptions.items() if v}
    cov["checker_cmd"] = "make -C coq %s (coqc 8.16.1, full .vo build) + coqc %s for Print Assumptions" % (" ".join(cfg["proof_targets"]), cfg["props"])
    cov["trusted_base"] = cfg.get("trusted_base", [])

    # 3. correspondence + oracle ---------------------------------------------------------------
    total = 0
    nontrivial = 0
    mismatches = []
    samples = []
    dist = {}
    eval_errors = []

    def explore(tier_, seed_, tag):
        nonlocal total, nontrivial
        ok_h, out_h, binary = core.harness_build(cfg["crate"], release=cfg.get("release", False))
        if not ok_h:
            problems.append({"kind": "harness-build", "what": "correspondence harness no longer builds against /repo", "log": out_h[-2500:]})
            return
        outdir = os.path.join(work, "run_" + tag)
        extra = ["--replay", replay] if replay else []
        rc, out = core.harness_run(binary, pid, seed_, tier_, outdir, extra=extra, timeout=cfg.get("harness_timeout", 3000))
        if rc != 0:
            problems.append({"kind": "harness-run", "what": "harness exited with %d" % rc, "log": out[-2500:]})
            return
        meta = json.load(open(os.path.join(outdir, "meta.json")))
        for k, v in meta.get("distribution", {}).items():
            dist[k] = dist.get(k, 0) + v
        cov.setdefault("nontrivial_rule_by_harness", meta.get("nontrivial_rule", ""))
        for extra_key in meta.get("coverage_extra", {}):
            cov[extra_key] = meta["coverage_extra"][extra_key]
        # direct implementation-only oracle hits
        for h in meta.get("hits", []):
            cls = h.get("class")
            if cls and cls in known:
                e = known_hits.setdefault(cls, [0, h.get("what", "")])
                e[0] += 1
            else:
                violations.append((cls, h.get("what", ""), h.get("replay")))
        for ksum in meta.get("kinds", []):
            kind = ksum["kind"]
            total += ksum["cases"]
            nontrivial += ksum["distinct_nontrivial"]
            if kind not in cfg["kinds"]:
                continue  # implementation-only stream (no model evaluation)
            ctype, cfn = cfg["kinds"][kind]
            lines = open(os.path.join(outdir, kind + ".cases")).read().split("\n")
            if lines and lines[-1] == "":
                lines.pop()
            humans = open(os.path.join(outdir, kind + ".human")).read().split("\n")
            if len(samples) < 6 and humans and humans[0]:
                samples.append({"kind": kind, "case": humans[0][:600]})
                if len(humans) > 2:
                    samples.append({"kind": kind, "case": humans[len(humans) // 2][:600]})
            if not ok_run:
                continue
            verdicts, errs = core.eval_cases(pid, kind, cfg["header"], ctype, cfn, lines, outdir,
                                             shard=cfg.get("shard", 250))
            eval_errors.extend(errs)
            for i, v in enumerate(verdicts):
                if v is None or v == V_OK:
                    continue
                robj = {"property": pid, "kind": kind, "seed": seed_, "tier": tier_, "index": i,
                        "case": humans[i] if i < len(humans) else "", "coq_case": lines[i][:20000],
                        "check": "%s : %s" % (cfn, ctype), "verdict": v}
                if v == V_MISMATCH:
                    mismatches.append(robj)
                elif v == V_VIOLATION:
                    violations.append((None, "%s oracle false on the implementation's outputs" % cfn, robj))
                elif v >= 10:
                    cls = cfg.get("known_classes", {}).get(v - 10, "class-%d" % (v - 10))
                    if cls in known:
                        e = known_hits.setdefault(cls, [0, humans[i][:300] if i < len(humans) else ""])
                        e[0] += 1
                    else:
                        violations.append((cls, "oracle false in class %s (not listed in known_findings.txt)" % cls, robj))
                else:
                    eval_errors.append("case %d of %s: malformed case (code %d): %s" % (i, kind, v, humans[i][:200] if i < len(humans) else ""))

    explore(tier, seed, "main")
    if eval_errors:
        problems.append({"kind": "model-eval", "what": "model evaluation failed", "where": eval_errors[:5]})
    if mismatches:
        problems.append({"kind": "correspondence", "what": "model and implementation disagree on %d case(s)" % len(mismatches),
                         "where": [m["case"][:300] for m in mismatches[:3]]})

    # 4. a broken proof / tie with no demonstrated failing input: enlarge the search --------------
    if problems and not violations and tier == "quick" and not replay and not cfg.get("no_enlarge"):
        log("check %s: proof or tie broken (%s); enlarging the failing-input search" % (pid, ", ".join(p["kind"] for p in problems)))
        explore("thorough", seed + 1000003, "enlarged")

    # 5. verdict ---------------------------------------------------------------------------
    cov["evaluations"] = total
    cov["distinct_nontrivial"] = nontrivial
    cov["traces_validated_against_impl"] = total - len(mismatches)
    cov["rule"] = cfg.get("rule", "") + " | " + cov.get("nontrivial_rule_by_harness", "")
    cov["samples"] = samples
    cov["input_distribution"] = dist
    cov["known_finding_hits"] = {k: v[0] for k, v in known_hits.items()}
    cov["problems"] = [{k: v for k, v in p.items() if k != "log"} for p in problems]

    for cls, (cnt, desc) in sorted(known_hits.items()):
        log("KNOWN-FINDING: property=%s class=%s hits=%d %s -- %s" % (pid, cls, cnt, known.get(cls, ""), desc[:200]))

    rc = 0
    os.makedirs(os.path.join(core.ROOT, "replays"), exist_ok=True)
    if violations:
        cls, desc, robj = violations[0]
        path = os.path.join(core.ROOT, "replays", "%s-%s-%d.json" % (pid, tier, seed))
        core.write_json(path, {"property": pid, "tier": tier, "seed": seed, "what": desc, "class": cls, "replay": robj,
                               "further_violations": len(violations) - 1, "problems": cov["problems"],
                               "how_to_replay": "./check %s --replay %s  (re-runs the check with this tier and seed: the harness regenerates the same cases, the failing one included)" % (pid, path)})
        log("VIOLATION property=%s replay=%s" % (pid, path))
        rc = 1
    elif problems:
        path = os.path.join(core.ROOT, "replays", "%s-%s-%d.json" % (pid, tier, seed))
        core.write_json(path, {"property": pid, "tier": tier, "seed": seed,
                               "what": "the property is no longer shown to hold: " + "; ".join(p["what"] for p in problems),
                               "broken": problems, "first_mismatch": mismatches[0] if mismatches else None})
        log("VIOLATION property=%s replay=%s no-failing-input-found" % (pid, path))
        rc = 1
    ev["violations"] = len(violations) + (1 if (problems and not violations) else 0)
    ev["wall_s"] = round(time.time() - t0, 2)
    core.write_json(os.path.join(core.ROOT, "evidence", "%s.json" % pid), ev)
    log("check %s tier=%s seed=%d: %s (%d cases, %d theorem(s), %.1fs)" % (
        pid, tier, seed, "OK" if rc == 0 else "FAILED", total, cov["obligations"], ev["wall_s"]))
    return rc
