"""Per-property configuration of the check flow: one module per property under /verif/props/Cxx.py,
each defining CFG (flow configuration) and MANIFEST (level text / note for MANIFEST.json)."""
import importlib.util
import os

ROOT = os.path.dirname(os.path.dirname(os.path.abspath(__file__)))

COMMON_TB = [
    "Coq 8.16.1 kernel + coqc (full .vo build through coq_makefile/make); vm_compute for witnesses and for evaluating the model on harness cases; no native_compute, no extraction",
    "translator /verif/translator (rs2v.py Rust-subset expression parser -> Gallina, plus gen_<ID>.py) for the items listed under translator_items",
    "correspondence harness /verif/harness (generators, canonicalisation, Gallina term printer) and the Python driver /verif/vlib",
]
H = "From NV.Common Require Import Base.\n"

PROPS = {}
MANIFESTS = {}
_d = os.path.join(ROOT, "props")
for _f in sorted(os.listdir(_d)):
    if re_ok := (_f.startswith("C") and _f.endswith(".py")):
        _spec = importlib.util.spec_from_file_location("nvprops_" + _f[:-3], os.path.join(_d, _f))
        _m = importlib.util.module_from_spec(_spec)
        _m.COMMON_TB = COMMON_TB
        _m.H = H
        _spec.loader.exec_module(_m)
        PROPS[_f[:-3]] = _m.CFG
        MANIFESTS[_f[:-3]] = getattr(_m, "MANIFEST", {})
