"""Per-property configuration of the check flow."""

COMMON_TB = [
    "Coq 8.16.1 kernel + coqc (full .vo build through coq_makefile/make); vm_compute for witnesses and for evaluating the model on harness cases; no native_compute, no extraction",
    "translator /verif/translator/rs2v.py (Rust-subset expression parser -> Gallina) for the items listed under translator_items",
    "correspondence harness /verif/harness (generators, canonicalisation, Gallina term printer) and the Python driver /verif/vlib",
]

H = "From NV.Common Require Import Base.\n"

PROPS = {
    "C17": dict(
        dirs=["Common", "C17"], gen=True,
        run_targets=["C17/Run.vo"], proof_targets=["C17/Props.vo"], props="C17/Props.v",
        gen_obligations=["Inst.gen_sup_spec: the regenerated supersedes is the strict lexicographic order on (incarnation, timestamp)"],
        crate="nvh_c17",
        header=H + "From NV.C17 Require Import Types Model Run.\nOpen Scope N_scope.",
        kinds={"trace": ("trace_case", "check_trace"), "conv": ("conv_case", "check_conv"), "global": ("global_case", "check_global")},
        known_classes={0: "tie-conflict"},
        rule="seeded op sequences / update sets over 2-4 members with small incarnation and timestamp ranges (ties frequent), run on the real LWWMembershipState and on the Gallina model",
        trusted_base=COMMON_TB + [
            "modelled, not verified: HashMap as an association list (iteration order never observed: dumps are taken per member id); u64 arithmetic as unbounded N (clock overflow at 2^64 not modelled); updated_at (wall clock) ignored; GossipMembershipManager's transport/callback layer around LWWMembershipState is outside the model",
        ],
        assumptions=["update_local with a caller-chosen incarnation is outside the property's listed events (it can lower an incarnation by construction)"],
    ),
}
